//! Driver for `CircularBuffer<N, u8>` (byte-stream I/O, C14/C16). Filled in below.
use serde_json::Value;
pub fn run(_sc: &Value, _scn: &str, _steps: &[Value]) -> Option<String> { None }
