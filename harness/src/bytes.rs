//! Driver for `CircularBuffer<N, u8>`: byte-stream I/O through std::io and, when the build has
//! them, the embedded-io / embedded-io-async traits (C14, C16). Records, judges nothing.

use crate::drv::{call, gi, gs, gv};
use crate::ev::{dec, enc, Ev, Post, Ret};
use circular_buffer::CircularBuffer;
use serde_json::Value;
use std::panic::{catch_unwind, AssertUnwindSafe};

type Buf<const N: usize> = CircularBuffer<N, u8>;

/// a Hasher that keeps what it was fed, call by call (a fixed array: hashing must not allocate)
struct Transcript {
    buf: [u8; 4096],
    len: usize,
}

impl Transcript {
    fn new() -> Self {
        Transcript { buf: [0; 4096], len: 0 }
    }
    fn push(&mut self, x: u8) {
        if self.len < self.buf.len() {
            self.buf[self.len] = x;
            self.len += 1;
        }
    }
    fn hex(&self) -> String {
        self.buf[..self.len].iter().map(|x| format!("{:02x}", x)).collect()
    }
}

impl std::hash::Hasher for Transcript {
    fn finish(&self) -> u64 {
        0
    }
    fn write(&mut self, bytes: &[u8]) {
        // one record per call: length, then the bytes
        self.push((bytes.len() >> 8) as u8);
        self.push(bytes.len() as u8);
        for x in bytes {
            self.push(*x);
        }
    }
}

struct BDrv<const N: usize> {
    buf: *mut Buf<N>,
    off: usize,
    out: String,
    scn: String,
    dig: u64,
}

#[cfg(feature = "eio-async")]
fn poll_once<F: std::future::Future>(f: F) -> Option<F::Output> {
    use std::task::{Context, Poll, Waker};
    let mut f = std::pin::pin!(f);
    let w = Waker::noop();
    let mut cx = Context::from_waker(&w);
    match f.as_mut().poll(&mut cx) {
        Poll::Ready(x) => Some(x),
        Poll::Pending => None,
    }
}

impl<const N: usize> BDrv<N> {
    fn calibrate() -> usize {
        if N == 0 {
            return 0;
        }
        let mut b: Box<Buf<N>> = Box::new(Buf::<N>::new());
        for _ in 0..N {
            let _ = b.push_back(0);
        }
        let base = &*b as *const Buf<N> as usize;
        let mut min = usize::MAX;
        for x in b.iter() {
            min = min.min(x as *const u8 as usize);
        }
        if min == usize::MAX {
            0
        } else {
            min - base
        }
    }

    fn slot_of(&self, x: *const u8) -> i64 {
        let base = self.buf as usize + self.off;
        let a = x as usize;
        if a < base || a - base >= N {
            -1
        } else {
            (a - base) as i64
        }
    }

    fn obs(&self) -> Post {
        if self.buf.is_null() {
            return Post::default();
        }
        let r = catch_unwind(AssertUnwindSafe(|| {
            let b = unsafe { &*self.buf };
            let (a, c) = b.as_slices();
            let mut post = Post {
                obs: true,
                len: enc(b.len()),
                empty: b.is_empty(),
                full: b.is_full(),
                split: a.len() as i64,
                cap: enc(b.capacity()),
                ..Default::default()
            };
            for x in a.iter().chain(c.iter()) {
                post.seq.push(*x as i64);
                post.vals.push(*x as i64);
                post.slots.push(self.slot_of(x));
            }
            post
        }));
        r.unwrap_or(Post { obs: true, len: -2, ..Default::default() })
    }

    fn emit(&mut self, mut ev: Ev) {
        ev.scn = self.scn.clone();
        ev.feat = crate::FEAT;
        ev.ty = "b";
        ev.cap = N as i64;
        ev.digest(&mut self.dig);
        ev.write(&mut self.out);
    }

    fn step(&mut self, st: &Value) {
        let op = gs(st, "op").to_string();
        let fam = {
            let f = gs(st, "fam");
            if f.is_empty() { "std" } else { f }
        }
        .to_string();
        let mut ev = Ev::new("call", &op);
        ev.h = 0;
        ev.acc = fam.clone();
        let i = gi(st, "i", 0);
        ev.i = i;
        if op == "new" {
            let b = Box::new(Buf::<N>::new());
            self.buf = Box::into_raw(b);
            ev.post = self.obs();
            ev.allocs = -1;
            return self.emit(ev);
        }
        if self.buf.is_null() {
            return;
        }
        let b: &mut Buf<N> = unsafe { &mut *self.buf };
        match op.as_str() {
            "write" => {
                let data: Vec<u8> = gv(st, "vals").iter().map(|x| *x as u8).collect();
                ev.vals = data.iter().map(|x| *x as i64).collect();
                // (count, is_err, pending)
                let r: Option<(usize, bool, bool)> = match fam.as_str() {
                    "std" => call(&mut ev, None, || match std::io::Write::write(b, &data) {
                        Ok(n) => (n, false, false),
                        Err(_) => (0, true, false),
                    }),
                    #[cfg(feature = "eio")]
                    "eio" => call(&mut ev, None, || match embedded_io::Write::write(b, &data) {
                        Ok(n) => (n, false, false),
                        Err(_) => (0, true, false),
                    }),
                    #[cfg(feature = "eio-async")]
                    "eio_async" => call(&mut ev, None, || match poll_once(embedded_io_async::Write::write(b, &data)) {
                        Some(Ok(n)) => (n, false, false),
                        Some(Err(_)) => (0, true, false),
                        None => (0, false, true),
                    }),
                    _ => return,
                };
                if let Some((n, err, pend)) = r {
                    ev.ret = Ret { k: if err { "err" } else { "n" }, n: enc(n), b: pend, ..Default::default() };
                }
            }
            "extend_ref" => {
                // impl Extend<&'a T> for Copy element types
                let data: Vec<u8> = gv(st, "vals").iter().map(|x| *x as u8).collect();
                ev.vals = data.iter().map(|x| *x as i64).collect();
                if call(&mut ev, None, || b.extend(data.iter())).is_some() {
                    ev.ret = Ret::unit();
                }
            }
            "flush" => {
                let r: Option<(bool, bool)> = match fam.as_str() {
                    "std" => call(&mut ev, None, || (std::io::Write::flush(b).is_err(), false)),
                    #[cfg(feature = "eio")]
                    "eio" => call(&mut ev, None, || (embedded_io::Write::flush(b).is_err(), false)),
                    #[cfg(feature = "eio-async")]
                    "eio_async" => call(&mut ev, None, || match poll_once(embedded_io_async::Write::flush(b)) {
                        Some(r) => (r.is_err(), false),
                        None => (false, true),
                    }),
                    _ => return,
                };
                if let Some((err, pend)) = r {
                    ev.ret = Ret { k: if err { "err" } else { "ok" }, b: pend, ..Default::default() };
                }
            }
            "read" => {
                let k = dec(i).min(1 << 16);
                let mut dst = vec![0xEEu8; k];
                let r: Option<(usize, bool, bool)> = match fam.as_str() {
                    "std" => call(&mut ev, None, || match std::io::Read::read(b, &mut dst) {
                        Ok(n) => (n, false, false),
                        Err(_) => (0, true, false),
                    }),
                    #[cfg(feature = "eio")]
                    "eio" => call(&mut ev, None, || match embedded_io::Read::read(b, &mut dst) {
                        Ok(n) => (n, false, false),
                        Err(_) => (0, true, false),
                    }),
                    #[cfg(feature = "eio-async")]
                    "eio_async" => call(&mut ev, None, || match poll_once(embedded_io_async::Read::read(b, &mut dst)) {
                        Some(Ok(n)) => (n, false, false),
                        Some(Err(_)) => (0, true, false),
                        None => (0, false, true),
                    }),
                    _ => return,
                };
                if let Some((n, err, pend)) = r {
                    ev.ret = Ret {
                        k: if err { "err" } else { "n" },
                        n: enc(n),
                        b: pend,
                        ids: dst[..n.min(k)].iter().map(|x| *x as i64).collect(),
                        // the rest of the destination must be untouched
                        ids2: dst[n.min(k)..].iter().map(|x| *x as i64).collect(),
                        ..Default::default()
                    };
                }
            }
            "read_exact" => {
                // a provided method of the Read traits (an implementation may override it)
                let k = dec(i).min(1 << 16);
                let mut dst = vec![0xEEu8; k];
                // (ok, eof, other error, pending)
                let r: Option<(bool, bool, bool, bool)> = match fam.as_str() {
                    "std" => call(&mut ev, None, || match std::io::Read::read_exact(b, &mut dst) {
                        Ok(()) => (true, false, false, false),
                        Err(e) => (false, e.kind() == std::io::ErrorKind::UnexpectedEof, e.kind() != std::io::ErrorKind::UnexpectedEof, false),
                    }),
                    #[cfg(feature = "eio")]
                    "eio" => call(&mut ev, None, || match embedded_io::Read::read_exact(b, &mut dst) {
                        Ok(()) => (true, false, false, false),
                        Err(embedded_io::ReadExactError::UnexpectedEof) => (false, true, false, false),
                        Err(_) => (false, false, true, false),
                    }),
                    #[cfg(feature = "eio-async")]
                    "eio_async" => call(&mut ev, None, || match poll_once(embedded_io_async::Read::read_exact(b, &mut dst)) {
                        Some(Ok(())) => (true, false, false, false),
                        Some(Err(embedded_io_async::ReadExactError::UnexpectedEof)) => (false, true, false, false),
                        Some(Err(_)) => (false, false, true, false),
                        None => (false, false, false, true),
                    }),
                    _ => return,
                };
                if let Some((ok, eof, other, pend)) = r {
                    ev.ret = Ret {
                        k: if ok { "ok" } else if eof { "eof" } else if other { "err" } else { "pending" },
                        b: pend,
                        ids: if ok { dst.iter().map(|x| *x as i64).collect() } else { vec![] },
                        ..Default::default()
                    };
                }
            }
            "write_all" => {
                let data: Vec<u8> = gv(st, "vals").iter().map(|x| *x as u8).collect();
                ev.vals = data.iter().map(|x| *x as i64).collect();
                let r: Option<(bool, bool)> = match fam.as_str() {
                    "std" => call(&mut ev, None, || (std::io::Write::write_all(b, &data).is_err(), false)),
                    #[cfg(feature = "eio")]
                    "eio" => call(&mut ev, None, || (embedded_io::Write::write_all(b, &data).is_err(), false)),
                    #[cfg(feature = "eio-async")]
                    "eio_async" => call(&mut ev, None, || match poll_once(embedded_io_async::Write::write_all(b, &data)) {
                        Some(r) => (r.is_err(), false),
                        None => (false, true),
                    }),
                    _ => return,
                };
                if let Some((err, pend)) = r {
                    ev.ret = Ret { k: if err { "err" } else { "ok" }, b: pend, ..Default::default() };
                }
            }
            "fill_buf" => {
                let r: Option<(Vec<u8>, Vec<i64>, bool, bool)> = {
                    let me: &BDrv<N> = unsafe { &*(self as *const BDrv<N>) };
                    let conv = |s: &[u8]| (s.to_vec(), s.iter().map(|x| me.slot_of(x)).collect::<Vec<i64>>());
                    match fam.as_str() {
                        "std" => call(&mut ev, None, || match std::io::BufRead::fill_buf(b) {
                            Ok(s) => {
                                let (v, sl) = conv(s);
                                (v, sl, false, false)
                            }
                            Err(_) => (vec![], vec![], true, false),
                        }),
                        #[cfg(feature = "eio")]
                        "eio" => call(&mut ev, None, || match embedded_io::BufRead::fill_buf(b) {
                            Ok(s) => {
                                let (v, sl) = conv(s);
                                (v, sl, false, false)
                            }
                            Err(_) => (vec![], vec![], true, false),
                        }),
                        #[cfg(feature = "eio-async")]
                        "eio_async" => call(&mut ev, None, || match poll_once(embedded_io_async::BufRead::fill_buf(b)) {
                            Some(Ok(s)) => {
                                let (v, sl) = conv(s);
                                (v, sl, false, false)
                            }
                            Some(Err(_)) => (vec![], vec![], true, false),
                            None => (vec![], vec![], false, true),
                        }),
                        _ => return,
                    }
                };
                if let Some((v, sl, err, pend)) = r {
                    ev.ret = Ret {
                        k: if err { "err" } else { "ids" },
                        ids: v.iter().map(|x| *x as i64).collect(),
                        slots: sl,
                        b: pend,
                        ..Default::default()
                    };
                    ev.allocs = -1;
                }
            }
            "consume" => {
                let k = dec(i);
                let r = match fam.as_str() {
                    "std" => call(&mut ev, None, || std::io::BufRead::consume(b, k)),
                    #[cfg(feature = "eio")]
                    "eio" => call(&mut ev, None, || embedded_io::BufRead::consume(b, k)),
                    #[cfg(feature = "eio-async")]
                    "eio_async" => call(&mut ev, None, || embedded_io_async::BufRead::consume(b, k)),
                    _ => return,
                };
                if r.is_some() {
                    ev.ret = Ret::unit();
                }
            }
            "hash" => {
                // observers on a primitive element type (C04, C13): the transcript of Hasher calls, with the
                // boundaries between write() calls, must not depend on the layout; `s2` is the transcript of a
                // fresh buffer with the same logical contents, `n` says whether the two compare equal in every way
                ev.acc = "std".to_string();
                let contents: Vec<u8> = {
                    let (a, c) = b.as_slices();
                    a.iter().chain(c.iter()).copied().collect()
                };
                let mut fresh = Box::new(Buf::<N>::new());
                fresh.extend_from_slice(&contents);
                let bb: &Buf<N> = b;
                let r = call(&mut ev, None, || {
                    let mut hs = Transcript::new();
                    std::hash::Hash::hash(bb, &mut hs);
                    hs
                });
                if let Some(hs) = r {
                    let mut h2 = Transcript::new();
                    std::hash::Hash::hash(&*fresh, &mut h2);
                    let same = catch_unwind(AssertUnwindSafe(|| {
                        *bb == *fresh
                            && *fresh == *bb
                            && !(*bb != *fresh)
                            && *bb == contents[..]
                            && bb.cmp(&*fresh) == std::cmp::Ordering::Equal
                            && bb.partial_cmp(&*fresh) == Some(std::cmp::Ordering::Equal)
                            && format!("{:?}", bb) == format!("{:?}", fresh)
                            && bb.clone() == *fresh
                    }))
                    .unwrap_or(false);
                    ev.ret = Ret { k: "str", s: hs.hex(), s2: h2.hex(), n: same as i64, ..Default::default() };
                }
            }
            "read_to_end" | "read_to_string" | "read_until" => {
                // provided methods of std::io::Read / BufRead (an implementation may override them); the destination
                // has room, so a call that allocates does so on its own account
                ev.acc = "std".to_string();
                let contents: Vec<u8> = {
                    let (a, c) = b.as_slices();
                    a.iter().chain(c.iter()).copied().collect()
                };
                let room = contents.len() + 64;
                let r: Option<(Result<usize, std::io::ErrorKind>, Vec<u8>)> = match op.as_str() {
                    "read_to_end" => {
                        let mut dst: Vec<u8> = Vec::with_capacity(room);
                        let r = call(&mut ev, None, || std::io::Read::read_to_end(b, &mut dst).map_err(|e| e.kind()));
                        r.map(|r| (r, dst))
                    }
                    "read_to_string" => {
                        ev.i = std::str::from_utf8(&contents).is_ok() as i64;
                        let mut dst = String::with_capacity(room);
                        let r = call(&mut ev, None, || std::io::Read::read_to_string(b, &mut dst).map_err(|e| e.kind()));
                        r.map(|r| (r, dst.into_bytes()))
                    }
                    _ => {
                        let mut dst: Vec<u8> = Vec::with_capacity(room);
                        let delim = i as u8;
                        let r = call(&mut ev, None, || std::io::BufRead::read_until(b, delim, &mut dst).map_err(|e| e.kind()));
                        r.map(|r| (r, dst))
                    }
                };
                if let Some((r, dst)) = r {
                    ev.ret = Ret {
                        k: if r.is_ok() { "n" } else { "err" },
                        n: enc(r.unwrap_or(0)),
                        s: match r {
                            Err(k) => format!("{:?}", k),
                            Ok(_) => String::new(),
                        },
                        ids: dst.iter().map(|x| *x as i64).collect(),
                        ..Default::default()
                    };
                }
            }
            "read_vectored" => {
                ev.acc = "std".to_string();
                let ks: Vec<usize> = gv(st, "vals").iter().map(|x| (*x as usize).min(1 << 12)).collect();
                ev.vals = ks.iter().map(|x| *x as i64).collect();
                let k1 = ks.first().copied().unwrap_or(0);
                let k2 = ks.get(1).copied().unwrap_or(0);
                let mut d1 = vec![0xEEu8; k1];
                let mut d2 = vec![0xEEu8; k2];
                let r = call(&mut ev, None, || {
                    let mut bufs = [std::io::IoSliceMut::new(&mut d1), std::io::IoSliceMut::new(&mut d2)];
                    std::io::Read::read_vectored(b, &mut bufs).map_err(|e| e.kind())
                });
                if let Some(r) = r {
                    let all: Vec<u8> = d1.iter().chain(d2.iter()).copied().collect();
                    let n = r.unwrap_or(0).min(all.len());
                    ev.ret = Ret {
                        k: if r.is_ok() { "n" } else { "err" },
                        n: enc(r.unwrap_or(0)),
                        ids: all[..n].iter().map(|x| *x as i64).collect(),
                        ids2: all[n..].iter().map(|x| *x as i64).collect(),
                        ..Default::default()
                    };
                }
            }
            "write_vectored" | "write_fmt" => {
                ev.acc = "std".to_string();
                let ascii = op == "write_fmt";
                let data: Vec<u8> = gv(st, "vals").iter().map(|x| if ascii { (*x as u8) & 0x7F } else { *x as u8 }).collect();
                ev.vals = data.iter().map(|x| *x as i64).collect();
                let cut = dec(i).min(data.len());
                let (p1, p2) = data.split_at(cut);
                if ascii {
                    let (s1, s2) = (std::str::from_utf8(p1).unwrap(), std::str::from_utf8(p2).unwrap());
                    if let Some(r) = call(&mut ev, None, || std::io::Write::write_fmt(b, format_args!("{}{}", s1, s2)).is_err()) {
                        ev.ret = Ret { k: if r { "err" } else { "ok" }, ..Default::default() };
                    }
                } else {
                    let r = call(&mut ev, None, || {
                        let bufs = [std::io::IoSlice::new(p1), std::io::IoSlice::new(p2)];
                        std::io::Write::write_vectored(b, &bufs).map_err(|e| e.kind())
                    });
                    if let Some(r) = r {
                        ev.ret = Ret { k: if r.is_ok() { "n" } else { "err" }, n: enc(r.unwrap_or(0)), ..Default::default() };
                    }
                }
            }
            "poison" => {
                let pat = match gs(st, "acc") {
                    "00" => 0x00u8,
                    "ff" => 0xFF,
                    _ => 0x5A,
                };
                ev.acc = gs(st, "acc").to_string();
                if N > 0 {
                    let mut occ = vec![false; N];
                    let (a, c) = b.as_slices();
                    for x in a.iter().chain(c.iter()) {
                        let s = self.slot_of(x);
                        if s >= 0 {
                            occ[s as usize] = true;
                        }
                    }
                    let base = (self.buf as usize + self.off) as *mut u8;
                    for s in 0..N {
                        if !occ[s] {
                            unsafe { base.add(s).write(pat) };
                        }
                    }
                }
                ev.allocs = -1;
            }
            _ => return,
        }
        ev.post = self.obs();
        self.emit(ev);
    }
}

fn run_n<const N: usize>(scn: &str, steps: &[Value]) -> String {
    let mut d = BDrv::<N> { buf: std::ptr::null_mut(), off: BDrv::<N>::calibrate(), out: String::new(), scn: scn.to_string(), dig: 0xcbf29ce484222325 };
    let mut b = Ev::new("begin", "begin");
    b.scn = scn.to_string();
    b.cap = N as i64;
    b.feat = crate::FEAT;
    b.ty = "b";
    b.write(&mut d.out);
    for st in steps {
        d.step(st);
    }
    if !d.buf.is_null() {
        unsafe { drop(Box::from_raw(d.buf)) };
    }
    let mut e = Ev::new("end", "end");
    e.scn = scn.to_string();
    e.ty = "b";
    e.cap = N as i64;
    e.feat = crate::FEAT;
    e.write(&mut d.out);
    crate::set_digest(d.dig);
    d.out
}

pub fn run(sc: &Value, scn: &str, steps: &[Value]) -> Option<String> {
    let n = sc.get("n").and_then(|v| v.as_u64()).unwrap_or(0);
    Some(match n {
        0 => run_n::<0>(scn, steps),
        1 => run_n::<1>(scn, steps),
        2 => run_n::<2>(scn, steps),
        3 => run_n::<3>(scn, steps),
        4 => run_n::<4>(scn, steps),
        5 => run_n::<5>(scn, steps),
        6 => run_n::<6>(scn, steps),
        8 => run_n::<8>(scn, steps),
        16 => run_n::<16>(scn, steps),
        33 => run_n::<33>(scn, steps),
        _ => return None,
    })
}
