//! Driver for `CircularBuffer<N, Tracked>`: executes scenario steps against the real type and
//! records one event per call. It contains no expectations about what the calls should do.

use crate::ev::{dec, enc, Ev, Post, Ret, Row};
use crate::tracked::{self, allocs, gen_element, Kind, Tracked, FAULT_MSG, MAGIC, STALE_BASE};
use circular_buffer::{CircularBuffer, Drain, IntoIter, Iter, IterMut};
use serde_json::Value;
use std::collections::hash_map::DefaultHasher;
use std::hash::{Hash, Hasher};
use std::ops::Bound;
use std::panic::{catch_unwind, AssertUnwindSafe};

type Buf<const N: usize> = CircularBuffer<N, Tracked>;

pub enum View<const N: usize> {
    It(Iter<'static, Tracked>),
    ItMut(IterMut<'static, Tracked>),
    Dr(Drain<'static, N, Tracked>),
    Into(IntoIter<N, Tracked>),
}

pub struct VSlot<const N: usize> {
    pub view: View<N>,
    pub h: i64,
    pub excl: bool,
}

pub struct Drv<const N: usize> {
    pub bufs: Vec<*mut Buf<N>>,
    pub views: Vec<Option<VSlot<N>>>,
    pub held: Vec<Tracked>,
    pub out: String,
    pub off: usize,
    pub scn: String,
    pub feat: &'static str,
    pub skipped: u64,
    pub calls: u64,
    /// a buffer of another capacity living in a sibling driver: (capacity, pointer), set by the runner
    pub peer: Option<(usize, *mut ())>,
    pub dig: u64,
    /// canonical digest of everything after the last `expect_layout` marker (C04)
    pub dig2: u64,
    pub canon: std::collections::HashMap<i64, i64>,
}

/// what the scenario runner needs from a driver of any capacity
pub trait Sub {
    fn do_step(&mut self, st: &Value);
    fn take_out(&mut self) -> String;
    fn buf_ptr(&self, h: i64) -> *mut ();
    fn set_peer(&mut self, p: Option<(usize, *mut ())>);
    fn do_finish(&mut self, last: bool);
    fn digest(&self) -> u64;
    fn digest2(&self) -> u64;
}

impl<const N: usize> Sub for Drv<N> {
    fn do_step(&mut self, st: &Value) {
        self.step(st)
    }
    fn take_out(&mut self) -> String {
        std::mem::take(&mut self.out)
    }
    fn buf_ptr(&self, h: i64) -> *mut () {
        self.buf(h) as *mut ()
    }
    fn set_peer(&mut self, p: Option<(usize, *mut ())>) {
        self.peer = p;
    }
    fn do_finish(&mut self, last: bool) {
        self.finish(last)
    }
    fn digest(&self) -> u64 {
        self.dig
    }
    fn digest2(&self) -> u64 {
        self.dig2
    }
}

fn cross2<const N: usize, const M: usize>(ev: &mut Ev, fault: Option<(Kind, u32)>, a: &Buf<N>, b: &Buf<M>, op: &str) {
    match op {
        "partial_cmp" => {
            if let Some(r) = call(ev, fault, || a.partial_cmp(b)) {
                ev.ret = match r {
                    Some(x) => Ret { k: "ord", n: x as i64, ..Default::default() },
                    None => Ret::none(),
                };
            }
        }
        _ => {
            let r = call(ev, fault, || match op {
                "eq" => a == b,
                "ne" => a != b,
                "lt" => a < b,
                "le" => a <= b,
                "gt" => a > b,
                _ => a >= b,
            });
            if let Some(r) = r {
                ev.ret = Ret::boolean(r);
            }
        }
    }
}

fn cross<const N: usize>(ev: &mut Ev, fault: Option<(Kind, u32)>, a: &Buf<N>, m: usize, q: *mut (), op: &str) -> bool {
    macro_rules! arm {
        ($($k:literal),*) => {
            match m {
                $( $k => { cross2::<N, $k>(ev, fault, a, unsafe { &*(q as *const Buf<$k>) }, op); true } )*
                _ => false,
            }
        };
    }
    arm!(0, 1, 2, 3, 4, 5, 6, 7, 8, 16, 33)
}

pub fn gi(st: &Value, k: &str, d: i64) -> i64 {
    st.get(k).and_then(|v| v.as_i64()).unwrap_or(d)
}
pub fn gs<'a>(st: &'a Value, k: &str) -> &'a str {
    st.get(k).and_then(|v| v.as_str()).unwrap_or("")
}
pub fn gv(st: &Value, k: &str) -> Vec<i64> {
    st.get(k)
        .and_then(|v| v.as_array())
        .map(|a| a.iter().map(|x| x.as_i64().unwrap_or(0)).collect())
        .unwrap_or_default()
}
pub fn gfault(st: &Value) -> Option<(Kind, u32)> {
    let f = st.get("fault")?;
    let k = Kind::parse(f.get("k")?.as_str()?)?;
    let n = f.get("n")?.as_i64()? as u32;
    Some((k, n))
}
pub fn gbound(st: &Value, k: &str) -> (&'static str, i64) {
    match st.get(k).and_then(|v| v.as_array()) {
        Some(a) if !a.is_empty() => {
            let t = a[0].as_str().unwrap_or("u");
            let x = a.get(1).and_then(|v| v.as_i64()).unwrap_or(0);
            match t {
                "i" => ("i", x),
                "e" => ("e", x),
                _ => ("u", 0),
            }
        }
        _ => ("u", 0),
    }
}
fn to_bound(b: (&'static str, i64)) -> Bound<usize> {
    match b.0 {
        "i" => Bound::Included(dec(b.1)),
        "e" => Bound::Excluded(dec(b.1)),
        _ => Bound::Unbounded,
    }
}

pub fn panic_msg(p: Box<dyn std::any::Any + Send>) -> String {
    let s = if let Some(s) = p.downcast_ref::<&str>() {
        s.to_string()
    } else if let Some(s) = p.downcast_ref::<String>() {
        s.clone()
    } else {
        "?".to_string()
    };
    let mut s: String = s.chars().take(80).collect();
    if s.contains(FAULT_MSG) {
        s = FAULT_MSG.to_string();
    }
    s
}

/// the provided methods that take an iterator by value; `f` sees every element the method hands over
fn by_value<I, X>(it: I, mode: &str, f: &mut dyn FnMut(X)) -> Option<usize>
where
    I: DoubleEndedIterator<Item = X>,
{
    match mode {
        "fold" => it.fold((), |(), x| f(x)),
        "rfold" => it.rfold((), |(), x| f(x)),
        "for_each" => it.for_each(|x| f(x)),
        "collect" => it.collect::<Vec<X>>().into_iter().for_each(|x| f(x)),
        "rev_collect" => it.rev().collect::<Vec<X>>().into_iter().for_each(|x| f(x)),
        "count" => return Some(it.count()),
        "last" => {
            if let Some(x) = it.last() {
                f(x)
            }
        }
        _ => it.for_each(|x| f(x)),
    }
    None
}

/// runs `f` as one recorded call
pub fn call<R>(ev: &mut Ev, fault: Option<(Kind, u32)>, f: impl FnOnce() -> R) -> Option<R> {
    tracked::begin_call();
    tracked::arm(fault);
    let a0 = allocs();
    let r = catch_unwind(AssertUnwindSafe(f));
    let a1 = allocs();
    let (cbs, fired) = tracked::take_log();
    ev.cbs = cbs;
    ev.inj = fired;
    match r {
        Ok(x) => {
            ev.allocs = (a1 - a0) as i64;
            Some(x)
        }
        Err(p) => {
            ev.unw = true;
            ev.msg = panic_msg(p);
            ev.ret = Ret::panic();
            ev.allocs = -1;
            None
        }
    }
}

macro_rules! with_array {
    ($m:expr, $body:ident, $($arg:expr),*) => {
        match $m {
            0 => $body::<N, 0>($($arg),*),
            1 => $body::<N, 1>($($arg),*),
            2 => $body::<N, 2>($($arg),*),
            3 => $body::<N, 3>($($arg),*),
            4 => $body::<N, 4>($($arg),*),
            5 => $body::<N, 5>($($arg),*),
            6 => $body::<N, 6>($($arg),*),
            7 => $body::<N, 7>($($arg),*),
            8 => $body::<N, 8>($($arg),*),
            9 => $body::<N, 9>($($arg),*),
            10 => $body::<N, 10>($($arg),*),
            11 => $body::<N, 11>($($arg),*),
            12 => $body::<N, 12>($($arg),*),
            13 => $body::<N, 13>($($arg),*),
            _ => None,
        }
    };
}

fn mk_array<const M: usize>(vals: &[i64]) -> [Tracked; M] {
    std::array::from_fn(|k| Tracked::new(vals.get(k).copied().unwrap_or(0) as u32))
}

fn from_array_m<const N: usize, const M: usize>(
    ev: &mut Ev,
    fault: Option<(Kind, u32)>,
    vals: &[i64],
) -> Option<Buf<N>> {
    let arr: [Tracked; M] = mk_array::<M>(vals);
    ev.ids = arr.iter().map(|t| t.id as i64).collect();
    call(ev, fault, move || Buf::<N>::from(arr))
}

fn eq_array_m<const N: usize, const M: usize>(
    ev: &mut Ev,
    fault: Option<(Kind, u32)>,
    b: &Buf<N>,
    vals: &[i64],
    form: &str,
    held: &mut Vec<Tracked>,
) -> Option<bool> {
    let mut arr: [Tracked; M] = mk_array::<M>(vals);
    ev.ids = arr.iter().map(|t| t.id as i64).collect();
    let r = match form {
        "array" => call(ev, fault, || *b == arr),
        "ref_array" => call(ev, fault, || *b == &arr),
        "mut_array" => call(ev, fault, || *b == &mut arr),
        _ => None,
    };
    for t in arr {
        held.push(t);
    }
    r
}

struct GenIter<'a> {
    vals: &'a [i64],
    pos: usize,
    /// what size_hint() claims: 0 = nothing (0, None); 1 = exact; 2 = a lower bound only; k >= 3 = an upper bound that is
    /// k - 2 too generous (like a filter adaptor)
    hint: i64,
}
impl Iterator for GenIter<'_> {
    type Item = Tracked;
    fn next(&mut self) -> Option<Tracked> {
        if self.pos >= self.vals.len() {
            return None;
        }
        let v = self.vals[self.pos];
        self.pos += 1;
        Some(gen_element(Kind::Iter, v as u32))
    }
    fn size_hint(&self) -> (usize, Option<usize>) {
        let rest = self.vals.len() - self.pos;
        match self.hint {
            0 => (0, None),
            1 => (rest, Some(rest)),
            2 => (rest / 2, None),
            k => (0, Some(rest + (k - 2) as usize)),
        }
    }
}

impl<const N: usize> Drv<N> {
    pub fn new(scn: &str, feat: &'static str) -> Drv<N> {
        Drv {
            bufs: Vec::new(),
            views: Vec::new(),
            held: Vec::with_capacity(256),
            out: String::with_capacity(1 << 16),
            off: Self::calibrate(),
            scn: scn.to_string(),
            feat,
            skipped: 0,
            calls: 0,
            peer: None,
            dig: 0xcbf29ce484222325,
            dig2: 0,
            canon: Default::default(),
        }
    }

    /// byte offset of slot 0 inside the struct, found from element addresses of a full buffer
    /// (no knowledge of the field order is used)
    fn calibrate() -> usize {
        if N == 0 {
            return 0;
        }
        thread_local! { static CAL: std::cell::RefCell<std::collections::HashMap<usize, usize>> = Default::default(); }
        if let Some(o) = CAL.with(|c| c.borrow().get(&N).copied()) {
            return o;
        }
        let mut b: Box<Buf<N>> = Box::new(Buf::<N>::new());
        for _ in 0..N {
            let _ = b.push_back(Tracked { magic: MAGIC, id: 0, val: 0, pad: 0 });
        }
        let base = &*b as *const Buf<N> as usize;
        let mut min = usize::MAX;
        for x in b.iter() {
            min = min.min(x as *const Tracked as usize);
        }
        // elements with id 0 are scratch: forget them instead of running their destructors
        while let Some(x) = b.pop_back() {
            std::mem::forget(x);
        }
        let off = if min == usize::MAX { 0 } else { min - base };
        CAL.with(|c| c.borrow_mut().insert(N, off));
        off
    }

    fn slot_of(&self, p: *mut Buf<N>, x: *const Tracked) -> i64 {
        let base = p as usize + self.off;
        let a = x as usize;
        if a < base {
            return -1;
        }
        let d = a - base;
        if d % std::mem::size_of::<Tracked>() != 0 {
            return -1;
        }
        let s = d / std::mem::size_of::<Tracked>();
        if s >= N {
            -1
        } else {
            s as i64
        }
    }

    fn buf(&self, h: i64) -> *mut Buf<N> {
        if h < 0 || h as usize >= self.bufs.len() {
            std::ptr::null_mut()
        } else {
            self.bufs[h as usize]
        }
    }

    fn set_buf(&mut self, h: i64, p: *mut Buf<N>) {
        let h = h as usize;
        while self.bufs.len() <= h {
            self.bufs.push(std::ptr::null_mut());
        }
        self.bufs[h] = p;
    }

    fn set_view(&mut self, v: i64, s: VSlot<N>) {
        let v = v as usize;
        while self.views.len() <= v {
            self.views.push(None);
        }
        self.views[v] = Some(s);
    }

    /// is buffer `h` borrowed by a live view? (`excl`: only mutable borrows count)
    fn borrowed(&self, h: i64, only_excl: bool) -> bool {
        self.views.iter().any(|v| match v {
            Some(s) => s.h == h && (s.excl || !only_excl),
            None => false,
        })
    }

    fn obs(&self, h: i64) -> Post {
        let p = self.buf(h);
        if p.is_null() || self.borrowed(h, true) {
            return Post::default();
        }
        let r = catch_unwind(AssertUnwindSafe(|| {
            let b = unsafe { &*p };
            let (a, c) = b.as_slices();
            let mut post = Post {
                obs: true,
                len: enc(b.len()),
                empty: b.is_empty(),
                full: b.is_full(),
                split: a.len() as i64,
                cap: enc(b.capacity()),
                ..Default::default()
            };
            for x in a.iter().chain(c.iter()) {
                post.seq.push(x.lid());
                post.vals.push(x.val as i64);
                post.slots.push(self.slot_of(p, x));
            }
            post
        }));
        match r {
            Ok(p) => p,
            Err(_) => Post { obs: true, len: -2, ..Default::default() },
        }
    }

    fn emit(&mut self, mut ev: Ev) {
        ev.scn = std::mem::take(&mut self.scn);
        ev.feat = self.feat;
        ev.cap = N.min(1 << 20) as i64;
        ev.digest(&mut self.dig);
        if ev.op == "expect_layout" {
            // the layout is reached: from here on, two buffers with equal logical contents must be indistinguishable
            self.dig2 = 0xcbf29ce484222325;
            self.canon.clear();
            for id in &ev.post.seq {
                let n = self.canon.len() as i64 + 1;
                self.canon.entry(*id).or_insert(n);
            }
        } else if self.dig2 != 0 && !matches!(ev.op.as_str(), "poison" | "mk" | "caller_drop") {
            ev.digest_canon(&mut self.dig2, &mut self.canon);
        }
        ev.write(&mut self.out);
        self.scn = std::mem::take(&mut ev.scn);
        self.calls += 1;
    }

    fn keep(&mut self, t: Tracked) -> i64 {
        let id = t.lid();
        self.held.push(t);
        id
    }

    fn opt_ref(&self, p: *mut Buf<N>, r: Option<&Tracked>) -> Ret {
        match r {
            Some(x) => Ret::some_at(x.lid(), self.slot_of(p, x)),
            None => Ret::none(),
        }
    }

    // ------------------------------------------------------------------------------------
    pub fn step(&mut self, st: &Value) {
        let op = gs(st, "op").to_string();
        let h = gi(st, "h", 0);
        let fault = gfault(st);
        let mut ev = Ev::new("call", &op);
        ev.h = h;
        let p = self.buf(h);
        let val = gi(st, "val", 1) as u32;
        let i = gi(st, "i", 0);
        let j = gi(st, "j", 0);
        ev.i = i;
        ev.j = j;

        // a scenario step that would overwrite a live buffer or view handle is not executable
        if matches!(op.as_str(), "new" | "default" | "boxed" | "from_array" | "from_iter") && !p.is_null() {
            self.skipped += 1;
            return;
        }
        if matches!(op.as_str(), "iter" | "iter_mut" | "range" | "range_mut" | "drain" | "into_iter" | "iter_default" | "iter_mut_default") {
            let v = gi(st, "v", 0);
            if v >= 0 && (v as usize) < self.views.len() && self.views[v as usize].is_some() {
                self.skipped += 1;
                return;
            }
        }
        if op == "clone" && !self.buf(gi(st, "h2", 1)).is_null() {
            self.skipped += 1;
            return;
        }
        // operations that do not need an existing buffer
        match op.as_str() {
            "new" | "default" | "boxed" => {
                let r = call(&mut ev, fault, || match op.as_str() {
                    "new" => Box::new(Buf::<N>::new()),
                    "default" => Box::new(Buf::<N>::default()),
                    _ => Buf::<N>::boxed(),
                });
                if let Some(b) = r {
                    self.set_buf(h, Box::into_raw(b));
                    ev.allocs = -1; // the box is ours (new/default) or documented (boxed)
                }
                ev.post = self.obs(h);
                return self.emit(ev);
            }
            "from_array" => {
                let vals = gv(st, "vals");
                ev.vals = vals.clone();
                let r: Option<Buf<N>> = with_array!(vals.len(), from_array_m, &mut ev, fault, &vals);
                if let Some(b) = r {
                    self.set_buf(h, Box::into_raw(Box::new(b)));
                }
                ev.post = self.obs(h);
                return self.emit(ev);
            }
            "from_iter" => {
                let vals = gv(st, "vals");
                ev.vals = vals.clone();
                let r = call(&mut ev, fault, || Buf::<N>::from_iter(GenIter { vals: &vals, pos: 0, hint: gi(st, "hint", 0) }));
                if let Some(b) = r {
                    self.set_buf(h, Box::into_raw(Box::new(b)));
                }
                ev.post = self.obs(h);
                return self.emit(ev);
            }
            "mk" => {
                ev.h = -1;
                let t = Tracked::new(val);
                ev.ids = vec![t.id as i64];
                ev.vals = vec![val as i64];
                self.held.push(t);
                return self.emit(ev);
            }
            "caller_drop" => {
                ev.h = -1;
                let ids = gv(st, "ids");
                let mut victims = Vec::new();
                if ids.is_empty() {
                    victims.append(&mut self.held);
                } else {
                    let mut k = 0;
                    while k < self.held.len() {
                        if ids.contains(&self.held[k].lid()) {
                            victims.push(self.held.remove(k));
                        } else {
                            k += 1;
                        }
                    }
                }
                ev.ids = victims.iter().map(|t| t.lid()).collect();
                // one at a time, so that a panicking destructor does not skip the others
                let mut all = Vec::new();
                for t in victims {
                    let mut e1 = Ev::new("call", "caller_drop");
                    call(&mut e1, fault, move || drop(t));
                    all.extend(e1.cbs);
                }
                ev.cbs = all;
                ev.allocs = -1;
                return self.emit(ev);
            }
            "iter_default" | "iter_mut_default" => {
                let v = gi(st, "v", 0);
                ev.v = v;
                ev.h = -1;
                let view = if op == "iter_default" {
                    View::It(Iter::default())
                } else {
                    View::ItMut(IterMut::default())
                };
                self.set_view(v, VSlot { view, h: -1, excl: false });
                return self.emit(ev);
            }
            _ => {}
        }

        if op.starts_with("v_") {
            return self.view_step(st, ev);
        }

        if p.is_null() {
            self.skipped += 1;
            return;
        }
        let mutating = !matches!(
            op.as_str(),
            "get" | "nth_front" | "nth_back" | "front" | "back" | "index" | "as_slices" | "observe" | "expect_layout"
                | "iter" | "range" | "to_vec" | "clone" | "eq" | "ne" | "partial_cmp" | "cmp"
                | "hash" | "debug" | "eq_slice" | "lt" | "le" | "gt" | "ge"
        );
        if self.borrowed(h, !mutating) {
            // the scenario asks for something the borrow checker would reject: not executable
            self.skipped += 1;
            return;
        }
        let b: &mut Buf<N> = unsafe { &mut *p };

        match op.as_str() {
            "push_back" | "push_front" => {
                let t = Tracked::new(val);
                ev.ids = vec![t.id as i64];
                ev.vals = vec![val as i64];
                let r = call(&mut ev, fault, || {
                    if op == "push_back" {
                        b.push_back(t)
                    } else {
                        b.push_front(t)
                    }
                });
                if let Some(r) = r {
                    ev.ret = match r {
                        Some(x) => Ret::some(self.keep(x)),
                        None => Ret::none(),
                    };
                }
            }
            "try_push_back" | "try_push_front" => {
                let t = Tracked::new(val);
                ev.ids = vec![t.id as i64];
                ev.vals = vec![val as i64];
                let r = call(&mut ev, fault, || {
                    if op == "try_push_back" {
                        b.try_push_back(t)
                    } else {
                        b.try_push_front(t)
                    }
                });
                if let Some(r) = r {
                    ev.ret = match r {
                        Ok(()) => Ret::ok(),
                        Err(x) => Ret::err(self.keep(x)),
                    };
                }
            }
            "pop_back" | "pop_front" => {
                let r = call(&mut ev, fault, || if op == "pop_back" { b.pop_back() } else { b.pop_front() });
                if let Some(r) = r {
                    ev.ret = match r {
                        Some(x) => Ret::some(self.keep(x)),
                        None => Ret::none(),
                    };
                }
            }
            "remove" | "swap_remove_back" | "swap_remove_front" => {
                let ix = dec(i);
                let r = call(&mut ev, fault, || match op.as_str() {
                    "remove" => b.remove(ix),
                    "swap_remove_back" => b.swap_remove_back(ix),
                    _ => b.swap_remove_front(ix),
                });
                if let Some(r) = r {
                    ev.ret = match r {
                        Some(x) => Ret::some(self.keep(x)),
                        None => Ret::none(),
                    };
                }
            }
            "swap" => {
                let (ix, jx) = (dec(i), dec(j));
                if call(&mut ev, fault, || b.swap(ix, jx)).is_some() {
                    ev.ret = Ret::unit();
                }
            }
            "truncate_back" | "truncate_front" | "clear" => {
                let n = dec(i);
                let r = call(&mut ev, fault, || match op.as_str() {
                    "truncate_back" => b.truncate_back(n),
                    "truncate_front" => b.truncate_front(n),
                    _ => b.clear(),
                });
                if r.is_some() {
                    ev.ret = Ret::unit();
                }
            }
            "fill" | "fill_spare" => {
                let t = Tracked::new(val);
                ev.ids = vec![t.id as i64];
                ev.vals = vec![val as i64];
                let r = call(&mut ev, fault, || if op == "fill" { b.fill(t) } else { b.fill_spare(t) });
                if r.is_some() {
                    ev.ret = Ret::unit();
                }
            }
            "fill_with" | "fill_spare_with" => {
                let mut vals = gv(st, "vals");
                if vals.is_empty() {
                    vals.push(val as i64);
                }
                ev.vals = vals.clone();
                let mut k = 0usize;
                let f = || {
                    let v = if vals.is_empty() { val as i64 } else { vals[k % vals.len()] };
                    k += 1;
                    gen_element(Kind::Gen, v as u32)
                };
                let r = call(&mut ev, fault, || if op == "fill_with" { b.fill_with(f) } else { b.fill_spare_with(f) });
                if r.is_some() {
                    ev.ret = Ret::unit();
                }
            }
            "extend" => {
                let vals = gv(st, "vals");
                ev.vals = vals.clone();
                ev.j = gi(st, "hint", 0);
                let r = call(&mut ev, fault, || b.extend(GenIter { vals: &vals, pos: 0, hint: gi(st, "hint", 0) }));
                if r.is_some() {
                    ev.ret = Ret::unit();
                }
            }
            "extend_from_slice" => {
                let vals = gv(st, "vals");
                ev.vals = vals.clone();
                let src: Vec<Tracked> = vals.iter().map(|v| Tracked::new(*v as u32)).collect();
                ev.ids = src.iter().map(|t| t.id as i64).collect();
                let r = call(&mut ev, fault, || b.extend_from_slice(&src));
                if r.is_some() {
                    ev.ret = Ret::unit();
                }
                self.held.extend(src);
            }
            "make_contiguous" => {
                let r = call(&mut ev, fault, || {
                    let s = b.make_contiguous();
                    (s.as_ptr(), s.len())
                });
                if let Some((sp, sl)) = r {
                    let s = unsafe { std::slice::from_raw_parts(sp, sl) };
                    ev.ret = Ret::ids(s.iter().map(|x| x.lid()).collect());
                    ev.ret.slots = s.iter().map(|x| self.slot_of(p, x)).collect();
                }
            }
            "get" | "nth_front" | "nth_back" | "index" => {
                let ix = dec(i);
                let r = call(&mut ev, fault, || match op.as_str() {
                    "get" => b.get(ix).map(|x| x as *const Tracked),
                    "nth_front" => b.nth_front(ix).map(|x| x as *const Tracked),
                    "nth_back" => b.nth_back(ix).map(|x| x as *const Tracked),
                    _ => Some(&b[ix] as *const Tracked),
                });
                if let Some(r) = r {
                    ev.ret = self.opt_ref(p, r.map(|x| unsafe { &*x }));
                }
            }
            "get_mut" | "nth_front_mut" | "nth_back_mut" | "index_mut" => {
                let ix = dec(i);
                let r = call(&mut ev, fault, || match op.as_str() {
                    "get_mut" => b.get_mut(ix).map(|x| x as *const Tracked),
                    "nth_front_mut" => b.nth_front_mut(ix).map(|x| x as *const Tracked),
                    "nth_back_mut" => b.nth_back_mut(ix).map(|x| x as *const Tracked),
                    _ => Some(&mut b[ix] as *const Tracked),
                });
                if let Some(r) = r {
                    ev.ret = self.opt_ref(p, r.map(|x| unsafe { &*x }));
                }
            }
            "front" | "back" | "front_mut" | "back_mut" => {
                let r = call(&mut ev, fault, || match op.as_str() {
                    "front" => b.front().map(|x| x as *const Tracked),
                    "back" => b.back().map(|x| x as *const Tracked),
                    "front_mut" => b.front_mut().map(|x| x as *const Tracked),
                    _ => b.back_mut().map(|x| x as *const Tracked),
                });
                if let Some(r) = r {
                    ev.ret = self.opt_ref(p, r.map(|x| unsafe { &*x }));
                }
            }
            "as_slices" | "as_mut_slices" => {
                let r = call(&mut ev, fault, || {
                    let (a, c): (&[Tracked], &[Tracked]) = if op == "as_slices" {
                        b.as_slices()
                    } else {
                        let (a, c) = b.as_mut_slices();
                        (a, c)
                    };
                    (a.as_ptr(), a.len(), c.as_ptr(), c.len())
                });
                if let Some((ap, al, cp, cl)) = r {
                    let a = unsafe { std::slice::from_raw_parts(ap, al) };
                    let c = unsafe { std::slice::from_raw_parts(cp, cl) };
                    ev.ret = Ret {
                        k: "slices",
                        ids: a.iter().map(|x| x.lid()).collect(),
                        ids2: c.iter().map(|x| x.lid()).collect(),
                        slots: a.iter().chain(c.iter()).map(|x| self.slot_of(p, x)).collect(),
                        ..Default::default()
                    };
                }
            }
            "write_via" => {
                // write a new payload through a mutable accessor at logical position i
                let acc = gs(st, "acc").to_string();
                ev.acc = acc.clone();
                ev.vals = vec![val as i64];
                let ix = dec(i);
                let bs = gbound(st, "bs");
                let be = gbound(st, "be");
                ev.bs = bs;
                ev.be = be;
                let r = call(&mut ev, fault, || -> Option<(i64, *const Tracked)> {
                    let x: Option<&mut Tracked> = match acc.as_str() {
                        "get_mut" => b.get_mut(ix),
                        "nth_front_mut" => b.nth_front_mut(ix),
                        "nth_back_mut" => b.nth_back_mut(ix),
                        "front_mut" => b.front_mut(),
                        "back_mut" => b.back_mut(),
                        "index_mut" => Some(&mut b[ix]),
                        "iter_mut" => b.iter_mut().nth(ix),
                        "iter_mut_rev" => b.iter_mut().rev().nth(ix),
                        "range_mut" => b.range_mut((to_bound(bs), to_bound(be))).nth(ix),
                        "as_mut_slices" => {
                            let (a, c) = b.as_mut_slices();
                            let al = a.len();
                            if ix < al {
                                a.get_mut(ix)
                            } else {
                                c.get_mut(ix - al)
                            }
                        }
                        "make_contiguous" => b.make_contiguous().get_mut(ix),
                        _ => None,
                    };
                    x.map(|x| {
                        x.val = val;
                        (x.lid(), x as *const Tracked)
                    })
                });
                if let Some(r) = r {
                    ev.ret = match r {
                        Some((id, a)) => Ret::some_at(id, self.slot_of(p, a)),
                        None => Ret::none(),
                    };
                }
            }
            "observe" => {
                ev.rows = self.observe_rows(p);
                ev.allocs = -1;
            }
            "expect_layout" => {
                // no call: the observation that follows is compared with the layout the scenario aimed for
                ev.allocs = -1;
            }
            "to_vec" => {
                let r = call(&mut ev, fault, || b.to_vec());
                if let Some(v) = r {
                    ev.ret = Ret::ids(v.iter().map(|x| x.lid()).collect());
                    self.held.extend(v);
                }
            }
            "clone" => {
                let h2 = gi(st, "h2", 1);
                ev.h2 = h2;
                let r = call(&mut ev, fault, || b.clone());
                if let Some(c) = r {
                    self.set_buf(h2, Box::into_raw(Box::new(c)));
                }
                ev.post2 = self.obs(h2);
            }
            "clone_from" => {
                let h2 = gi(st, "h2", 1);
                ev.h2 = h2;
                let q = self.buf(h2);
                if q.is_null() || q == p || self.borrowed(h2, true) {
                    self.skipped += 1;
                    return;
                }
                let src: &Buf<N> = unsafe { &*q };
                if call(&mut ev, fault, || b.clone_from(src)).is_some() {
                    ev.ret = Ret::unit();
                }
                ev.post2 = self.obs(h2);
            }
            "eq" | "ne" | "partial_cmp" | "lt" | "le" | "gt" | "ge" if self.peer.is_some() => {
                // the other operand has a different capacity and lives in a sibling driver
                let (m, q) = self.peer.unwrap();
                ev.h2 = gi(st, "h2", 1);
                let a: &Buf<N> = unsafe { &*p };
                if q.is_null() || !cross(&mut ev, fault, a, m, q, &op) {
                    self.skipped += 1;
                    return;
                }
            }
            "eq" | "ne" | "partial_cmp" | "cmp" | "lt" | "le" | "gt" | "ge" => {
                let h2 = gi(st, "h2", 1);
                ev.h2 = h2;
                let q = self.buf(h2);
                if q.is_null() || self.borrowed(h2, true) {
                    self.skipped += 1;
                    return;
                }
                let o: &Buf<N> = unsafe { &*q };
                let b: &Buf<N> = unsafe { &*p };
                match op.as_str() {
                    "eq" | "ne" | "lt" | "le" | "gt" | "ge" => {
                        let r = call(&mut ev, fault, || match op.as_str() {
                            "eq" => b == o,
                            "ne" => b != o,
                            "lt" => b < o,
                            "le" => b <= o,
                            "gt" => b > o,
                            _ => b >= o,
                        });
                        if let Some(r) = r {
                            ev.ret = Ret::boolean(r);
                        }
                    }
                    "partial_cmp" => {
                        if let Some(r) = call(&mut ev, fault, || b.partial_cmp(o)) {
                            ev.ret = match r {
                                Some(x) => Ret { k: "ord", n: x as i64, ..Default::default() },
                                None => Ret::none(),
                            };
                        }
                    }
                    _ => {
                        if let Some(r) = call(&mut ev, fault, || b.cmp(o)) {
                            ev.ret = Ret { k: "ord", n: r as i64, ..Default::default() };
                        }
                    }
                }
                ev.post2 = self.obs(h2);
            }
            "eq_slice" => {
                let vals = gv(st, "vals");
                ev.vals = vals.clone();
                let form = gs(st, "acc").to_string();
                ev.acc = form.clone();
                let b: &Buf<N> = unsafe { &*p };
                let r = match form.as_str() {
                    "slice" | "ref_slice" | "mut_slice" => {
                        let mut src: Vec<Tracked> = vals.iter().map(|v| Tracked::new(*v as u32)).collect();
                        ev.ids = src.iter().map(|t| t.id as i64).collect();
                        let r = match form.as_str() {
                            "slice" => call(&mut ev, fault, || *b == src[..]),
                            "ref_slice" => call(&mut ev, fault, || *b == &src[..]),
                            _ => call(&mut ev, fault, || *b == &mut src[..]),
                        };
                        self.held.extend(src);
                        r
                    }
                    _ => with_array!(vals.len(), eq_array_m, &mut ev, fault, b, &vals, &form, &mut self.held),
                };
                if let Some(r) = r {
                    ev.ret = Ret::boolean(r);
                }
            }
            "hash" => {
                let b: &Buf<N> = unsafe { &*p };
                let r = call(&mut ev, fault, || {
                    let mut hs = DefaultHasher::new();
                    b.hash(&mut hs);
                    hs.finish()
                });
                if let Some(r) = r {
                    ev.ret = Ret { k: "str", s: format!("{:016x}", r), ..Default::default() };
                    let h2 = gi(st, "h2", -1);
                    let q = self.buf(h2);
                    if !q.is_null() && !self.borrowed(h2, true) {
                        // a second buffer of the same capacity, hashed the same way, for comparison
                        ev.h2 = h2;
                        let o: &Buf<N> = unsafe { &*q };
                        let mut e2 = Ev::new("call", "hash");
                        if let Some(r2) = call(&mut e2, None, || {
                            let mut hs = DefaultHasher::new();
                            o.hash(&mut hs);
                            hs.finish()
                        }) {
                            ev.ret.s2 = format!("{:016x}", r2);
                        }
                        ev.cbs.extend(e2.cbs);
                    }
                }
            }
            "debug" => {
                let b: &Buf<N> = unsafe { &*p };
                let form = gs(st, "acc").to_string();
                ev.acc = form.clone();
                let r = call(&mut ev, fault, || fmt_with(&form, b));
                if let Some(r) = r {
                    // the documented reference: the same formatting of the equivalent slice of
                    // payloads (computed from the observed contents, not from the buffer's Debug)
                    let (a, c) = b.as_slices();
                    let pay: Vec<u32> = a.iter().chain(c.iter()).map(|x| x.val).collect();
                    ev.ret = Ret { k: "str", s: r, s2: fmt_with(&form, &pay[..]), ..Default::default() };
                    ev.allocs = -1;
                }
            }
            "iter" | "iter_mut" | "range" | "range_mut" | "drain" => {
                let v = gi(st, "v", 0);
                ev.v = v;
                let bs = gbound(st, "bs");
                let be = gbound(st, "be");
                ev.bs = bs;
                ev.be = be;
                let rb = (to_bound(bs), to_bound(be));
                let bb: &'static mut Buf<N> = unsafe { &mut *p };
                let r = call(&mut ev, fault, || match op.as_str() {
                    "iter" => View::It(bb.iter()),
                    "iter_mut" => View::ItMut(bb.iter_mut()),
                    "range" => View::It(bb.range(rb)),
                    "range_mut" => View::ItMut(bb.range_mut(rb)),
                    _ => View::Dr(bb.drain(rb)),
                });
                if let Some(view) = r {
                    let excl = !matches!(view, View::It(_));
                    ev.ret = Ret::num(view_len(&view));
                    self.set_view(v, VSlot { view, h, excl });
                }
            }
            "into_iter" => {
                let v = gi(st, "v", 0);
                ev.v = v;
                let bx = unsafe { Box::from_raw(p) };
                self.bufs[h as usize] = std::ptr::null_mut();
                let r = call(&mut ev, fault, || (*bx).into_iter());
                if let Some(it) = r {
                    ev.ret = Ret::num(it.len() as i64);
                    self.set_view(v, VSlot { view: View::Into(it), h: -1, excl: false });
                }
            }
            "drop_buf" => {
                let bx = unsafe { Box::from_raw(p) };
                self.bufs[h as usize] = std::ptr::null_mut();
                if call(&mut ev, fault, move || drop(bx)).is_some() {
                    ev.ret = Ret::unit();
                }
            }
            "poison" => {
                let pat = gs(st, "acc").to_string();
                ev.acc = pat.clone();
                self.poison(p, &pat);
                ev.allocs = -1;
            }
            _ => {
                self.skipped += 1;
                return;
            }
        }
        ev.post = self.obs(h);
        self.emit(ev);
    }

    // ------------------------------------------------------------------------------------
    fn view_step(&mut self, st: &Value, mut ev: Ev) {
        let op = gs(st, "op").to_string();
        let v = gi(st, "v", 0);
        let fault = gfault(st);
        ev.v = v;
        ev.h = -1;
        if v < 0 || v as usize >= self.views.len() || self.views[v as usize].is_none() {
            self.skipped += 1;
            return;
        }
        let h = self.views[v as usize].as_ref().unwrap().h;
        ev.h = h;
        let p = self.buf(h);
        match op.as_str() {
            "v_next" | "v_next_back" => {
                let front = op == "v_next";
                let slot = self.views[v as usize].as_mut().unwrap();
                let mut got_ref: Option<Option<*const Tracked>> = None;
                let mut got_val: Option<Option<Tracked>> = None;
                match &mut slot.view {
                    View::It(it) => {
                        got_ref = call(&mut ev, fault, || {
                            (if front { it.next() } else { it.next_back() }).map(|x| x as *const Tracked)
                        });
                    }
                    View::ItMut(it) => {
                        got_ref = call(&mut ev, fault, || {
                            (if front { it.next() } else { it.next_back() }).map(|x| x as *const Tracked)
                        });
                    }
                    View::Dr(it) => {
                        got_val = call(&mut ev, fault, || if front { it.next() } else { it.next_back() });
                    }
                    View::Into(it) => {
                        got_val = call(&mut ev, fault, || if front { it.next() } else { it.next_back() });
                    }
                }
                if let Some(r) = got_ref {
                    ev.ret = match r {
                        Some(x) => {
                            let x = unsafe { &*x };
                            Ret::some_at(x.lid(), if p.is_null() { -1 } else { self.slot_of(p, x) })
                        }
                        None => Ret::none(),
                    };
                }
                if let Some(r) = got_val {
                    ev.ret = match r {
                        Some(x) => Ret::some(self.keep(x)),
                        None => Ret::none(),
                    };
                }
            }
            "v_nth" | "v_nth_back" => {
                // provided iterator methods (an implementation may override them): skip k elements, yield the next
                let k = dec(gi(st, "i", 0)).min(1 << 20);
                ev.i = gi(st, "i", 0);
                let front = op == "v_nth";
                let slot = self.views[v as usize].as_mut().unwrap();
                let mut got_ref: Option<Option<*const Tracked>> = None;
                let mut got_val: Option<Option<Tracked>> = None;
                match &mut slot.view {
                    View::It(it) => {
                        got_ref = call(&mut ev, fault, || (if front { it.nth(k) } else { it.nth_back(k) }).map(|x| x as *const Tracked));
                    }
                    View::ItMut(it) => {
                        got_ref = call(&mut ev, fault, || (if front { it.nth(k) } else { it.nth_back(k) }).map(|x| x as *const Tracked));
                    }
                    View::Dr(it) => {
                        got_val = call(&mut ev, fault, || if front { it.nth(k) } else { it.nth_back(k) });
                    }
                    View::Into(it) => {
                        got_val = call(&mut ev, fault, || if front { it.nth(k) } else { it.nth_back(k) });
                    }
                }
                if let Some(r) = got_ref {
                    ev.ret = match r {
                        Some(x) => {
                            let x = unsafe { &*x };
                            Ret::some_at(x.lid(), if p.is_null() { -1 } else { self.slot_of(p, x) })
                        }
                        None => Ret::none(),
                    };
                }
                if let Some(r) = got_val {
                    ev.ret = match r {
                        Some(x) => Ret::some(self.keep(x)),
                        None => Ret::none(),
                    };
                }
            }
            "v_len" | "v_size_hint" => {
                let slot = self.views[v as usize].as_ref().unwrap();
                let r = call(&mut ev, fault, || {
                    if op == "v_len" {
                        let l = view_len(&slot.view);
                        (l, l, true)
                    } else {
                        let (lo, hi) = match &slot.view {
                            View::It(it) => it.size_hint(),
                            View::ItMut(it) => it.size_hint(),
                            View::Dr(it) => it.size_hint(),
                            View::Into(it) => it.size_hint(),
                        };
                        (lo as i64, hi.map(|x| x as i64).unwrap_or(-1), hi.is_some())
                    }
                });
                if let Some((lo, hi, _)) = r {
                    ev.ret = Ret { k: "n", n: lo, ids2: vec![lo, hi], ..Default::default() };
                }
            }
            "v_clone" => {
                let v2 = gi(st, "v2", v + 1);
                ev.v2 = v2;
                if v2 >= 0 && (v2 as usize) < self.views.len() && self.views[v2 as usize].is_some() {
                    self.skipped += 1;
                    return;
                }
                let slot = self.views[v as usize].as_ref().unwrap();
                let r = match &slot.view {
                    View::It(it) => call(&mut ev, fault, || View::It(it.clone())),
                    View::Into(it) => call(&mut ev, fault, || View::Into(it.clone())),
                    _ => {
                        self.skipped += 1;
                        return;
                    }
                };
                if let Some(view) = r {
                    ev.ret = Ret::num(view_len(&view));
                    let (h, excl) = (slot.h, slot.excl);
                    self.set_view(v2, VSlot { view, h, excl });
                }
            }
            "v_rest" => {
                // consume everything that is left, from the front (or from the back: i = 1)
                let back = gi(st, "i", 0) == 1;
                let slot = self.views[v as usize].as_mut().unwrap();
                let mut ids = Vec::new();
                let mut slots = Vec::new();
                let mut vals: Vec<Tracked> = Vec::new();
                let pp = p;
                let off = self.off;
                let slot_of = |x: *const Tracked| -> i64 {
                    if pp.is_null() {
                        return -1;
                    }
                    let base = pp as usize + off;
                    let a = x as usize;
                    if a < base || (a - base) % 16 != 0 || (a - base) / 16 >= N {
                        -1
                    } else {
                        ((a - base) / 16) as i64
                    }
                };
                // provided methods that take the iterator by value (an implementation may override them): the view
                // is consumed and dropped by the call, recorded as v_rest (what was produced) followed by v_drop
                let mode = gs(st, "acc").to_string();
                if !mode.is_empty() && fault.is_none() {
                    ev.acc = mode.clone();
                    let back = mode == "rfold" || mode == "rev_collect";
                    ev.i = back as i64;
                    let slot = self.views[v as usize].take().unwrap();
                    let mut count: Option<usize> = None;
                    let r = call(&mut ev, None, || match slot.view {
                        View::It(it) => count = by_value(it, &mode, &mut |x: &Tracked| {
                            ids.push(x.lid());
                            slots.push(slot_of(x));
                        }),
                        View::ItMut(it) => count = by_value(it, &mode, &mut |x: &mut Tracked| {
                            ids.push(x.lid());
                            slots.push(slot_of(x));
                        }),
                        View::Dr(it) => count = by_value(it, &mode, &mut |x: Tracked| {
                            ids.push(x.lid());
                            vals.push(x);
                        }),
                        View::Into(it) => count = by_value(it, &mode, &mut |x: Tracked| {
                            ids.push(x.lid());
                            vals.push(x);
                        }),
                    });
                    self.held.extend(vals);
                    if r.is_some() {
                        ev.ret = match (mode.as_str(), count) {
                            ("count", Some(n)) => Ret::num(n as i64),
                            ("last", _) => match ids.first() {
                                Some(id) => Ret { k: "some", ids: vec![*id], slots: slots.clone(), ..Default::default() },
                                None => Ret::none(),
                            },
                            _ => Ret { k: "ids", ids, slots, ..Default::default() },
                        };
                        ev.allocs = -1;
                    }
                    let unw = ev.unw;
                    self.emit(ev);
                    if !unw {
                        let mut e2 = Ev::new("call", "v_drop");
                        e2.v = v;
                        e2.h = h;
                        e2.ret = Ret::unit();
                        e2.allocs = -1;
                        e2.post = self.obs(h);
                        self.emit(e2);
                    }
                    return;
                }
                let r = call(&mut ev, fault, || match &mut slot.view {
                    View::It(it) => {
                        while let Some(x) = if back { it.next_back() } else { it.next() } {
                            ids.push(x.lid());
                            slots.push(slot_of(x));
                        }
                    }
                    View::ItMut(it) => {
                        while let Some(x) = if back { it.next_back() } else { it.next() } {
                            ids.push(x.lid());
                            slots.push(slot_of(x));
                        }
                    }
                    View::Dr(it) => {
                        while let Some(x) = if back { it.next_back() } else { it.next() } {
                            ids.push(x.lid());
                            vals.push(x);
                        }
                    }
                    View::Into(it) => {
                        while let Some(x) = if back { it.next_back() } else { it.next() } {
                            ids.push(x.lid());
                            vals.push(x);
                        }
                    }
                });
                self.held.extend(vals);
                if r.is_some() {
                    ev.ret = Ret { k: "ids", ids, slots, ..Default::default() };
                    ev.allocs = -1;
                }
            }
            "v_debug" => {
                let slot = self.views[v as usize].as_ref().unwrap();
                let r = call(&mut ev, fault, || match &slot.view {
                    View::It(it) => format!("{:?}", it),
                    View::ItMut(it) => format!("{:?}", it),
                    View::Dr(it) => format!("{:?}", it),
                    View::Into(it) => format!("{:?}", it),
                });
                if let Some(s) = r {
                    // the output, and (a plain re-reading of it, no judgement) the integers it lists
                    let t = s.trim();
                    let well = t.starts_with('[') && t.ends_with(']');
                    let nums: Vec<i64> = t.trim_start_matches('[').trim_end_matches(']').split(',')
                        .filter_map(|x| x.trim().parse::<i64>().ok()).collect();
                    ev.ret = Ret { k: "str", s, ids2: nums, b: well, ..Default::default() };
                    ev.allocs = -1;
                }
            }
            "v_drop" | "v_forget" => {
                let slot = self.views[v as usize].take().unwrap();
                if op == "v_drop" {
                    if call(&mut ev, fault, move || drop(slot.view)).is_some() {
                        ev.ret = Ret::unit();
                    }
                } else {
                    std::mem::forget(slot.view);
                    ev.ret = Ret::unit();
                }
            }
            _ => {
                self.skipped += 1;
                return;
            }
        }
        ev.post = self.obs(h);
        self.emit(ev);
    }

    // ------------------------------------------------------------------------------------
    /// every read accessor, for every position 0..=len+1 and usize::MAX, as rows of (id, slot);
    /// 0 = None, -2 = the accessor panicked, -1 = bytes that are not an element
    fn observe_rows(&self, p: *mut Buf<N>) -> Vec<Row> {
        let b: &Buf<N> = unsafe { &*p };
        let bm: &mut Buf<N> = unsafe { &mut *p };
        let len = b.len().min(64);
        let mut pos: Vec<usize> = (0..=len + 1).collect();
        pos.push(usize::MAX);
        let mut rows = Vec::new();
        let probe = |name: &'static str, f: &mut dyn FnMut(usize) -> Option<*const Tracked>| -> Row {
            let mut r = Row { acc: name, ..Default::default() };
            for &ix in &pos {
                match catch_unwind(AssertUnwindSafe(|| f(ix))) {
                    Ok(Some(x)) => {
                        let x = unsafe { &*x };
                        r.ids.push(x.lid());
                        r.slots.push(self.slot_of(p, x));
                    }
                    Ok(None) => {
                        r.ids.push(0);
                        r.slots.push(-1);
                    }
                    Err(_) => {
                        r.ids.push(-2);
                        r.slots.push(-1);
                    }
                }
            }
            r
        };
        rows.push(probe("get", &mut |ix| b.get(ix).map(|x| x as *const _)));
        rows.push(probe("nth_front", &mut |ix| b.nth_front(ix).map(|x| x as *const _)));
        rows.push(probe("nth_back", &mut |ix| b.nth_back(ix).map(|x| x as *const _)));
        rows.push(probe("index", &mut |ix| Some(&b[ix] as *const _)));
        rows.push(probe("get_mut", &mut |ix| bm.get_mut(ix).map(|x| x as *const _)));
        rows.push(probe("nth_front_mut", &mut |ix| bm.nth_front_mut(ix).map(|x| x as *const _)));
        rows.push(probe("nth_back_mut", &mut |ix| bm.nth_back_mut(ix).map(|x| x as *const _)));
        rows.push(probe("index_mut", &mut |ix| Some(&mut bm[ix] as *const _)));

        let seqrow = |name: &'static str, f: &mut dyn FnMut() -> Vec<*const Tracked>| -> Row {
            let mut r = Row { acc: name, ..Default::default() };
            match catch_unwind(AssertUnwindSafe(|| f())) {
                Ok(v) => {
                    for x in v {
                        let x = unsafe { &*x };
                        r.ids.push(x.lid());
                        r.slots.push(self.slot_of(p, x));
                    }
                }
                Err(_) => {
                    r.ids.push(-2);
                    r.slots.push(-1);
                }
            }
            r
        };
        rows.push(seqrow("front", &mut || b.front().map(|x| x as *const _).into_iter().collect()));
        rows.push(seqrow("back", &mut || b.back().map(|x| x as *const _).into_iter().collect()));
        rows.push(seqrow("front_mut", &mut || bm.front_mut().map(|x| x as *const _).into_iter().collect()));
        rows.push(seqrow("back_mut", &mut || bm.back_mut().map(|x| x as *const _).into_iter().collect()));
        rows.push(seqrow("iter", &mut || b.iter().map(|x| x as *const _).collect()));
        rows.push(seqrow("iter_rev", &mut || b.iter().rev().map(|x| x as *const _).collect()));
        rows.push(seqrow("into_iter_ref", &mut || b.into_iter().map(|x| x as *const _).collect()));
        rows.push(seqrow("range_full", &mut || b.range(..).map(|x| x as *const _).collect()));
        rows.push(seqrow("iter_mut", &mut || bm.iter_mut().map(|x| x as *const _).collect()));
        rows.push(seqrow("iter_mut_rev", &mut || bm.iter_mut().rev().map(|x| x as *const _).collect()));
        rows.push(seqrow("range_mut_full", &mut || bm.range_mut(..).map(|x| x as *const _).collect()));
        rows.push(seqrow("as_slices", &mut || {
            let (a, c) = b.as_slices();
            a.iter().chain(c.iter()).map(|x| x as *const _).collect()
        }));
        rows.push(seqrow("as_mut_slices", &mut || {
            let (a, c) = bm.as_mut_slices();
            a.iter().chain(c.iter()).map(|x| x as *const _).collect()
        }));
        rows
    }

    /// overwrite every slot that does not hold one of the buffer's elements
    fn poison(&mut self, p: *mut Buf<N>, pat: &str) {
        if N == 0 {
            return;
        }
        let mut occ = vec![false; N];
        {
            let b: &Buf<N> = unsafe { &*p };
            let (a, c) = b.as_slices();
            for x in a.iter().chain(c.iter()) {
                let s = self.slot_of(p, x);
                if s >= 0 {
                    occ[s as usize] = true;
                }
            }
        }
        let base = (p as usize + self.off) as *mut u8;
        let live: Option<(u32, u32)> = self.held.first().map(|t| (t.id, t.val));
        for s in 0..N {
            if occ[s] {
                continue;
            }
            unsafe {
                let q = base.add(s * 16);
                match pat {
                    "00" => std::ptr::write_bytes(q, 0x00, 16),
                    "ff" => std::ptr::write_bytes(q, 0xFF, 16),
                    "5a" => std::ptr::write_bytes(q, 0x5A, 16),
                    "live" if live.is_some() => {
                        let (id, val) = live.unwrap();
                        (q as *mut Tracked).write(Tracked { magic: MAGIC, id, val, pad: 0 });
                    }
                    _ => {
                        (q as *mut Tracked).write(Tracked {
                            magic: MAGIC,
                            id: STALE_BASE + s as u32,
                            val: 2,
                            pad: 0,
                        });
                    }
                }
            }
        }
    }

    /// end of scenario: release everything that is still alive, as ordinary recorded calls
    pub fn finish(&mut self, last: bool) {
        for v in 0..self.views.len() {
            if self.views[v].is_some() {
                let st = serde_json::json!({"op":"v_drop","v":v});
                self.step(&st);
            }
        }
        for h in 0..self.bufs.len() {
            if !self.bufs[h].is_null() {
                let st = serde_json::json!({"op":"drop_buf","h":h});
                self.step(&st);
            }
        }
        if !self.held.is_empty() {
            let st = serde_json::json!({"op":"caller_drop"});
            self.step(&st);
        }
        if last {
            let ev = Ev::new("end", "end");
            self.emit(ev);
        }
    }
}

fn view_len<const N: usize>(v: &View<N>) -> i64 {
    (match v {
        View::It(it) => it.len(),
        View::ItMut(it) => it.len(),
        View::Dr(it) => it.len(),
        View::Into(it) => it.len(),
    }) as i64
}

pub fn fmt_with<T: std::fmt::Debug + ?Sized>(form: &str, x: &T) -> String {
    match form {
        "alt" => format!("{:#?}", x),
        "w5" => format!("{:5?}", x),
        "lw4" => format!("{:<4?}", x),
        "z3" => format!("{:03?}", x),
        "plus" => format!("{:+?}", x),
        "hex" => format!("{:x?}", x),
        "HEX" => format!("{:#X?}", x),
        "althex" => format!("{:#x?}", x),
        "prec" => format!("{:.2?}", x),
        "fillw" => format!("{:*^7?}", x),
        _ => format!("{:?}", x),
    }
}
