//! Element types of the conformance harness and the recording they do.
//!
//! Nothing in this file judges anything: callbacks append to a log, bump a ledger and possibly
//! raise the one armed fault. The log is what `Trace.tla` checks against the contract.

use std::alloc::{GlobalAlloc, Layout, System};
use std::cell::RefCell;
use std::cmp::Ordering;
use std::fmt;
use std::hash::{Hash, Hasher};
use std::sync::atomic::{AtomicUsize, Ordering as AO};

pub const MAGIC: u32 = 0xC1BC_0FFE;
/// ids at or above this value are never created: they are what the harness writes into
/// unoccupied slots as "stale" garbage with a valid magic
pub const STALE_BASE: u32 = 900_000;
pub const FAULT_MSG: &str = "cbv-injected-fault";

// ---------------------------------------------------------------------------------------------
// counting allocator (C17)

pub struct Counting;
pub static ALLOCS: AtomicUsize = AtomicUsize::new(0);

unsafe impl GlobalAlloc for Counting {
    unsafe fn alloc(&self, l: Layout) -> *mut u8 {
        ALLOCS.fetch_add(1, AO::Relaxed);
        System.alloc(l)
    }
    unsafe fn dealloc(&self, p: *mut u8, l: Layout) {
        System.dealloc(p, l)
    }
    unsafe fn alloc_zeroed(&self, l: Layout) -> *mut u8 {
        ALLOCS.fetch_add(1, AO::Relaxed);
        System.alloc_zeroed(l)
    }
    unsafe fn realloc(&self, p: *mut u8, l: Layout, n: usize) -> *mut u8 {
        ALLOCS.fetch_add(1, AO::Relaxed);
        System.realloc(p, l, n)
    }
}

pub fn allocs() -> usize {
    ALLOCS.load(AO::Relaxed)
}

// ---------------------------------------------------------------------------------------------
// callback log + fault

#[derive(Clone, Copy, Debug, PartialEq, Eq)]
pub enum Kind {
    Drop,
    Clone,
    Gen,
    Iter,
    Cmp,
    Hash,
    Fmt,
    Panic,
    Garbage,
}

impl Kind {
    pub fn name(self) -> &'static str {
        match self {
            Kind::Drop => "drop",
            Kind::Clone => "clone",
            Kind::Gen => "gen",
            Kind::Iter => "iter",
            Kind::Cmp => "cmp",
            Kind::Hash => "hash",
            Kind::Fmt => "fmt",
            Kind::Panic => "panic",
            Kind::Garbage => "garbage",
        }
    }
    pub fn parse(s: &str) -> Option<Kind> {
        Some(match s {
            "drop" => Kind::Drop,
            "clone" => Kind::Clone,
            "gen" => Kind::Gen,
            "iter" => Kind::Iter,
            "cmp" => Kind::Cmp,
            "hash" => Kind::Hash,
            "fmt" => Kind::Fmt,
            _ => return None,
        })
    }
}

#[derive(Clone, Copy, Debug)]
pub struct Cb {
    pub k: Kind,
    pub id: i64,
    pub src: i64,
}

pub struct Rec {
    pub log: Vec<Cb>,
    pub next_id: u32,
    /// armed fault: the `n`-th callback of kind `k` (counted from `arm`) panics, once
    pub fault: Option<(Kind, u32)>,
    pub seen: [u32; 9],
    pub fired: bool,
    pub zst_created: u64,
    pub zst_dropped: u64,
}

thread_local! {
    pub static REC: RefCell<Rec> = RefCell::new(Rec {
        log: Vec::with_capacity(1 << 16),
        next_id: 1,
        fault: None,
        seen: [0; 9],
        fired: false,
        zst_created: 0,
        zst_dropped: 0,
    });
}

pub fn reset_scenario() {
    REC.with(|r| {
        let mut r = r.borrow_mut();
        r.log.clear();
        r.next_id = 1;
        r.fault = None;
        r.seen = [0; 9];
        r.fired = false;
        r.zst_created = 0;
        r.zst_dropped = 0;
    })
}

pub fn arm(f: Option<(Kind, u32)>) {
    REC.with(|r| {
        let mut r = r.borrow_mut();
        r.fault = f;
        r.seen = [0; 9];
        r.fired = false;
    })
}

pub fn begin_call() {
    REC.with(|r| {
        let mut r = r.borrow_mut();
        r.log.clear();
        let need = 8192usize;
        if r.log.capacity() < need {
            r.log.reserve(need);
        }
    })
}

pub fn take_log() -> (Vec<Cb>, bool) {
    REC.with(|r| {
        let mut r = r.borrow_mut();
        let fired = r.fired;
        r.fault = None;
        r.fired = false;
        (r.log.clone(), fired)
    })
}

pub fn log_len() -> usize {
    REC.with(|r| r.borrow().log.len())
}

pub fn fresh_id() -> u32 {
    REC.with(|r| {
        let mut r = r.borrow_mut();
        let id = r.next_id;
        r.next_id += 1;
        id
    })
}

/// record a callback; returns true if the armed fault is to be raised by the caller of `note`
fn note(k: Kind, id: i64, src: i64) -> bool {
    REC.with(|r| {
        let mut r = r.borrow_mut();
        r.log.push(Cb { k, id, src });
        let ki = k as usize;
        r.seen[ki] += 1;
        if let Some((fk, n)) = r.fault {
            if fk == k && r.seen[ki] == n && !r.fired {
                r.fired = true;
                r.log.push(Cb { k: Kind::Panic, id, src: k as i64 });
                return true;
            }
        }
        false
    })
}

/// would the next callback of kind `k` raise the fault? (used where the fault must be raised
/// *before* the callback's effect, e.g. before a clone exists)
fn pre_fault(k: Kind, id: i64, src: i64) -> bool {
    REC.with(|r| {
        let mut r = r.borrow_mut();
        let ki = k as usize;
        if let Some((fk, n)) = r.fault {
            if fk == k && r.seen[ki] + 1 == n && !r.fired {
                r.seen[ki] += 1;
                r.fired = true;
                r.log.push(Cb { k: Kind::Panic, id: if id != 0 { id } else { src }, src: k as i64 });
                return true;
            }
        }
        false
    })
}

fn garbage(what: i64, id: i64) {
    REC.with(|r| r.borrow_mut().log.push(Cb { k: Kind::Garbage, id, src: what }))
}

// ---------------------------------------------------------------------------------------------
// Tracked: an element with identity

#[repr(C)]
pub struct Tracked {
    pub magic: u32,
    pub id: u32,
    pub val: u32,
    pub pad: u32,
}

impl Tracked {
    pub fn new(val: u32) -> Tracked {
        Tracked { magic: MAGIC, id: fresh_id(), val, pad: 0 }
    }
    /// the id as logged: -1 when the bytes are not an element at all
    pub fn lid(&self) -> i64 {
        if self.magic != MAGIC {
            -1
        } else {
            self.id as i64
        }
    }
    pub fn ok(&self) -> bool {
        self.magic == MAGIC
    }
}

impl Drop for Tracked {
    fn drop(&mut self) {
        if !self.ok() {
            garbage(1, self.id as i64);
            return;
        }
        if note(Kind::Drop, self.id as i64, 0) {
            panic!("{}", FAULT_MSG);
        }
    }
}

impl Clone for Tracked {
    fn clone(&self) -> Tracked {
        if !self.ok() {
            garbage(2, self.id as i64);
            return Tracked { magic: MAGIC, id: fresh_id(), val: 0, pad: 0 };
        }
        if pre_fault(Kind::Clone, 0, self.id as i64) {
            panic!("{}", FAULT_MSG);
        }
        let n = Tracked { magic: MAGIC, id: fresh_id(), val: self.val, pad: 0 };
        note(Kind::Clone, n.id as i64, self.id as i64);
        n
    }
}

impl PartialEq for Tracked {
    fn eq(&self, o: &Tracked) -> bool {
        if !self.ok() || !o.ok() {
            garbage(3, self.id as i64);
            return false;
        }
        if note(Kind::Cmp, self.id as i64, o.id as i64) {
            panic!("{}", FAULT_MSG);
        }
        self.val == o.val
    }
}
impl Eq for Tracked {}

impl PartialOrd for Tracked {
    fn partial_cmp(&self, o: &Tracked) -> Option<Ordering> {
        Some(self.cmp(o))
    }
}
impl Ord for Tracked {
    fn cmp(&self, o: &Tracked) -> Ordering {
        if !self.ok() || !o.ok() {
            garbage(4, self.id as i64);
            return Ordering::Equal;
        }
        if note(Kind::Cmp, self.id as i64, o.id as i64) {
            panic!("{}", FAULT_MSG);
        }
        self.val.cmp(&o.val)
    }
}

impl Hash for Tracked {
    fn hash<H: Hasher>(&self, h: &mut H) {
        if !self.ok() {
            garbage(5, self.id as i64);
            return;
        }
        note(Kind::Hash, self.id as i64, 0);
        self.val.hash(h);
    }
}

impl fmt::Debug for Tracked {
    fn fmt(&self, f: &mut fmt::Formatter<'_>) -> fmt::Result {
        if !self.ok() {
            garbage(6, self.id as i64);
            return f.write_str("?");
        }
        note(Kind::Fmt, self.id as i64, 0);
        // honour the formatter flags the way an integer does, so that `{:#?}`, width, etc.
        // are visible in the output
        fmt::Debug::fmt(&self.val, f)
    }
}

/// callback fired by the harness' own closure / iterator just before it creates an element
pub fn gen_element(kind: Kind, val: u32) -> Tracked {
    if pre_fault(kind, 0, 0) {
        panic!("{}", FAULT_MSG);
    }
    let t = Tracked::new(val);
    note(kind, t.id as i64, 0);
    t
}

// ---------------------------------------------------------------------------------------------
// Zst: a zero-sized element with a destructor (C19). No identity: only counters.

pub struct Zst;

impl Zst {
    pub fn new() -> Zst {
        REC.with(|r| r.borrow_mut().zst_created += 1);
        Zst
    }
}

impl Drop for Zst {
    fn drop(&mut self) {
        REC.with(|r| r.borrow_mut().zst_dropped += 1);
    }
}

impl Clone for Zst {
    fn clone(&self) -> Zst {
        Zst::new()
    }
}

pub fn zst_counts() -> (u64, u64) {
    REC.with(|r| {
        let r = r.borrow();
        (r.zst_created, r.zst_dropped)
    })
}
