//! The trace event: one uniform record per call (all fields always present, so that the TLA+
//! trace specification can access any of them without testing for presence).

use crate::tracked::Cb;
use std::fmt::Write;

/// Integers are written in the *code* domain shared with the specification (TLC integers are 32 bit):
pub const HUGE_TOP: i64 = 1 << 30;
pub const HUGE_MID: i64 = 1 << 29;
pub const SMALL_LIMIT: i64 = 1 << 20;

pub const HUGE_LOW: i64 = 1 << 28;

/// code of a machine word: small values are themselves; values within 1024 of 2^32, 2^63 and
/// usize::MAX keep their distance to that landmark; every other large value is "some huge number"
pub fn enc(x: usize) -> i64 {
    let x = x as u128;
    let near = |c: u128| -> Option<i64> {
        let d = x as i128 - c as i128;
        if d.abs() <= 1024 { Some(d as i64) } else { None }
    };
    if x < SMALL_LIMIT as u128 {
        x as i64
    } else if let Some(d) = near(usize::MAX as u128) {
        HUGE_TOP + d
    } else if let Some(d) = near(1u128 << 63) {
        HUGE_MID + d
    } else if let Some(d) = near(1u128 << 32) {
        HUGE_LOW + d
    } else {
        HUGE_MID - 5000
    }
}

pub fn dec(v: i64) -> usize {
    if v < 0 {
        0
    } else if v < SMALL_LIMIT {
        v as usize
    } else if (v - HUGE_TOP).abs() <= 1024 {
        (usize::MAX as i128 + (v - HUGE_TOP).min(0) as i128) as usize
    } else if (v - HUGE_MID).abs() <= 1024 {
        ((1i128 << 63) + (v - HUGE_MID) as i128) as usize
    } else if (v - HUGE_LOW).abs() <= 1024 {
        ((1i128 << 32) + (v - HUGE_LOW) as i128) as usize
    } else {
        (1usize << 40) + 12345
    }
}

#[derive(Default, Clone)]
pub struct Ret {
    pub k: &'static str,
    pub ids: Vec<i64>,
    pub ids2: Vec<i64>,
    pub slots: Vec<i64>,
    pub n: i64,
    pub b: bool,
    pub s: String,
    pub s2: String,
}

impl Ret {
    pub fn unit() -> Ret {
        Ret { k: "unit", ..Default::default() }
    }
    pub fn none() -> Ret {
        Ret { k: "none", ..Default::default() }
    }
    pub fn some(id: i64) -> Ret {
        Ret { k: "some", ids: vec![id], ..Default::default() }
    }
    pub fn some_at(id: i64, slot: i64) -> Ret {
        Ret { k: "some", ids: vec![id], slots: vec![slot], ..Default::default() }
    }
    pub fn ok() -> Ret {
        Ret { k: "ok", ..Default::default() }
    }
    pub fn err(id: i64) -> Ret {
        Ret { k: "err", ids: vec![id], ..Default::default() }
    }
    pub fn num(n: i64) -> Ret {
        Ret { k: "n", n, ..Default::default() }
    }
    pub fn boolean(b: bool) -> Ret {
        Ret { k: "bool", b, ..Default::default() }
    }
    pub fn ids(ids: Vec<i64>) -> Ret {
        Ret { k: "ids", ids, ..Default::default() }
    }
    pub fn panic() -> Ret {
        Ret { k: "panic", ..Default::default() }
    }
}

#[derive(Default, Clone)]
pub struct Post {
    pub obs: bool,
    pub seq: Vec<i64>,
    pub vals: Vec<i64>,
    pub slots: Vec<i64>,
    pub len: i64,
    pub empty: bool,
    pub full: bool,
    pub split: i64,
    pub cap: i64,
}

#[derive(Default, Clone)]
pub struct Row {
    pub acc: &'static str,
    pub ids: Vec<i64>,
    pub slots: Vec<i64>,
}

#[derive(Default, Clone)]
pub struct Ev {
    pub e: &'static str,
    pub op: String,
    pub h: i64,
    pub h2: i64,
    pub v: i64,
    pub v2: i64,
    pub i: i64,
    pub j: i64,
    pub ids: Vec<i64>,
    pub vals: Vec<i64>,
    pub bs: (&'static str, i64),
    pub be: (&'static str, i64),
    pub acc: String,
    pub cbs: Vec<Cb>,
    pub unw: bool,
    pub inj: bool,
    pub msg: String,
    pub ret: Ret,
    pub post: Post,
    pub post2: Post,
    pub rows: Vec<Row>,
    pub allocs: i64,
    pub cap: i64,
    pub ty: &'static str,
    pub scn: String,
    pub feat: &'static str,
}

fn arr(o: &mut String, name: &str, xs: &[i64]) {
    let _ = write!(o, "\"{}\":[", name);
    for (k, x) in xs.iter().enumerate() {
        if k > 0 {
            o.push(',');
        }
        let _ = write!(o, "{}", x);
    }
    o.push(']');
}

fn esc(s: &str) -> String {
    let mut r = String::with_capacity(s.len());
    for c in s.chars() {
        match c {
            '"' => r.push_str("\\\""),
            '\\' => r.push_str("\\\\"),
            '\n' => r.push_str("\\n"),
            '\t' => r.push_str("\\t"),
            c if (c as u32) < 0x20 => r.push(' '),
            c => r.push(c),
        }
    }
    r
}

fn post(o: &mut String, name: &str, p: &Post) {
    let _ = write!(o, "\"{}\":{{\"obs\":{},", name, p.obs);
    arr(o, "seq", &p.seq);
    o.push(',');
    arr(o, "vals", &p.vals);
    o.push(',');
    arr(o, "slots", &p.slots);
    let _ = write!(
        o,
        ",\"len\":{},\"empty\":{},\"full\":{},\"split\":{},\"cap\":{}}}",
        p.len, p.empty, p.full, p.split, p.cap
    );
}

fn fnv(h: &mut u64, bytes: &[u8]) {
    for b in bytes {
        *h ^= *b as u64;
        *h = h.wrapping_mul(0x100000001b3);
    }
}
fn fnv_i(h: &mut u64, xs: &[i64]) {
    fnv(h, &(xs.len() as u64).to_le_bytes());
    for x in xs {
        fnv(h, &x.to_le_bytes());
    }
}

impl Ev {
    /// digest of the property-level projection of the event (results, contents, panics, element
    /// lifecycle callbacks - not addresses, split points, allocation counts or panic messages):
    /// what must be identical between the default build and the `unstable` build (C18)
    pub fn digest(&self, h: &mut u64) {
        fnv(h, self.op.as_bytes());
        fnv(h, self.acc.as_bytes());
        fnv_i(h, &[self.h, self.h2, self.v, self.v2, self.i, self.j, self.unw as i64, self.inj as i64, self.bs.1, self.be.1]);
        fnv(h, self.bs.0.as_bytes());
        fnv(h, self.be.0.as_bytes());
        fnv_i(h, &self.ids);
        fnv_i(h, &self.vals);
        for c in &self.cbs {
            fnv(h, c.k.name().as_bytes());
            fnv_i(h, &[c.id, c.src]);
        }
        fnv(h, self.ret.k.as_bytes());
        fnv_i(h, &self.ret.ids);
        fnv_i(h, &self.ret.ids2);
        fnv_i(h, &[self.ret.n, self.ret.b as i64]);
        fnv(h, self.ret.s.as_bytes());
        for p in [&self.post, &self.post2] {
            fnv_i(h, &[p.obs as i64, p.len, p.empty as i64, p.full as i64]);
            fnv_i(h, &p.seq);
            fnv_i(h, &p.vals);
        }
        for r in &self.rows {
            fnv(h, r.acc.as_bytes());
            fnv_i(h, &r.ids);
        }
    }

    /// digest of what a client can tell apart, with element ids renamed canonically (by order of first
    /// appearance in results and contents): two buffers with equal logical contents must produce the same
    /// value under the same calls, whatever their physical layout, history or garbage (C04). Excludes
    /// addresses, the split point of as_slices, allocation counts, and the ORDER of callbacks.
    pub fn digest_canon(&self, h: &mut u64, canon: &mut std::collections::HashMap<i64, i64>) {
        fn m(canon: &mut std::collections::HashMap<i64, i64>, x: i64) -> i64 {
            if x <= 0 {
                return x;
            }
            let n = canon.len() as i64 + 1;
            *canon.entry(x).or_insert(n)
        }
        fnv(h, self.op.as_bytes());
        fnv(h, self.acc.as_bytes());
        fnv_i(h, &[self.i, self.j, self.unw as i64, self.inj as i64, self.bs.1, self.be.1]);
        fnv(h, self.bs.0.as_bytes());
        fnv(h, self.be.0.as_bytes());
        fnv_i(h, &self.vals);
        // arguments first; then elements created during the call: products of the user's closure / iterator in
        // call order (that order is the user's to see), clones grouped by the element they were cloned from
        // (the order in which different elements are cloned is not part of the comparison). WHERE the new
        // elements end up is then part of what is compared.
        let ids: Vec<i64> = self.ids.iter().map(|x| m(canon, *x)).collect();
        for c in &self.cbs {
            if matches!(c.k.name(), "gen" | "iter") {
                m(canon, c.id);
            }
        }
        let mut clones: Vec<(i64, usize, i64)> = self.cbs.iter().enumerate()
            .filter(|(_, c)| c.k.name() == "clone").map(|(k, c)| (m(canon, c.src), k, c.id)).collect();
        clones.sort();
        for (_, _, id) in clones {
            m(canon, id);
        }
        fnv_i(h, &ids);
        fnv(h, self.ret.k.as_bytes());
        let mut r: Vec<i64> = self.ret.ids.iter().map(|x| m(canon, *x)).collect();
        if self.ret.k == "slices" {
            r.extend(self.ret.ids2.iter().map(|x| m(canon, *x)));
        } else {
            fnv_i(h, &self.ret.ids2);
        }
        fnv_i(h, &r);
        fnv_i(h, &[self.ret.n, self.ret.b as i64]);
        fnv(h, self.ret.s.as_bytes());
        for p in [&self.post, &self.post2] {
            fnv_i(h, &[p.obs as i64, p.len, p.empty as i64, p.full as i64]);
            let q: Vec<i64> = p.seq.iter().map(|x| m(canon, *x)).collect();
            fnv_i(h, &q);
            fnv_i(h, &p.vals);
        }
        for row in &self.rows {
            fnv(h, row.acc.as_bytes());
            let q: Vec<i64> = row.ids.iter().map(|x| m(canon, *x)).collect();
            fnv_i(h, &q);
        }
        // callbacks as a multiset
        let mut acc: u64 = 0;
        for c in &self.cbs {
            let mut x: u64 = 0xcbf29ce484222325;
            fnv(&mut x, c.k.name().as_bytes());
            let id = m(canon, c.id);
            let src = if c.k.name() == "panic" { c.src } else { m(canon, c.src) };
            fnv_i(&mut x, &[id, src]);
            acc = acc.wrapping_add(x);
        }
        fnv(h, &acc.to_le_bytes());
    }

    pub fn new(e: &'static str, op: &str) -> Ev {
        Ev {
            e,
            op: op.to_string(),
            h: -1,
            h2: -1,
            v: -1,
            v2: -1,
            bs: ("u", 0),
            be: ("u", 0),
            allocs: -1,
            ret: Ret::unit(),
            ty: "t",
            feat: "",
            ..Default::default()
        }
    }

    pub fn write(&self, o: &mut String) {
        let _ = write!(
            o,
            "{{\"e\":\"{}\",\"op\":\"{}\",\"scn\":\"{}\",\"ty\":\"{}\",\"feat\":\"{}\",\"cap\":{},\"h\":{},\"h2\":{},\"v\":{},\"v2\":{},\"i\":{},\"j\":{},",
            self.e, self.op, esc(&self.scn), self.ty, self.feat, self.cap, self.h, self.h2, self.v, self.v2, self.i, self.j
        );
        arr(o, "ids", &self.ids);
        o.push(',');
        arr(o, "vals", &self.vals);
        let _ = write!(
            o,
            ",\"bs\":{{\"t\":\"{}\",\"x\":{}}},\"be\":{{\"t\":\"{}\",\"x\":{}}},\"acc\":\"{}\",\"cbs\":[",
            self.bs.0, self.bs.1, self.be.0, self.be.1, self.acc
        );
        for (k, c) in self.cbs.iter().enumerate() {
            if k > 0 {
                o.push(',');
            }
            let _ = write!(o, "{{\"k\":\"{}\",\"id\":{},\"src\":{}}}", c.k.name(), c.id, c.src);
        }
        let _ = write!(
            o,
            "],\"unw\":{},\"inj\":{},\"msg\":\"{}\",\"ret\":{{\"k\":\"{}\",",
            self.unw,
            self.inj,
            esc(&self.msg),
            self.ret.k
        );
        arr(o, "ids", &self.ret.ids);
        o.push(',');
        arr(o, "ids2", &self.ret.ids2);
        o.push(',');
        arr(o, "slots", &self.ret.slots);
        let _ = write!(
            o,
            ",\"n\":{},\"b\":{},\"s\":\"{}\",\"s2\":\"{}\"}},",
            self.ret.n,
            self.ret.b,
            esc(&self.ret.s),
            esc(&self.ret.s2)
        );
        post(o, "post", &self.post);
        o.push(',');
        post(o, "post2", &self.post2);
        o.push_str(",\"rows\":[");
        for (k, r) in self.rows.iter().enumerate() {
            if k > 0 {
                o.push(',');
            }
            let _ = write!(o, "{{\"acc\":\"{}\",", r.acc);
            arr(o, "ids", &r.ids);
            o.push(',');
            arr(o, "slots", &r.slots);
            o.push('}');
        }
        let _ = write!(o, "],\"allocs\":{}}}\n", self.allocs);
    }
}
