//! cbv: conformance harness for circular-buffer.
//!
//!   cbv run <scenarios.ndjson> <trace-out.ndjson> [--from K] [--only K]
//!
//! Every scenario line is `{"id":..., "n":N, "ty":"t"|"b"|"z", "steps":[...]}`. The harness executes
//! the steps against the real crate and writes one trace event per call. It judges nothing: the
//! trace is validated by TLC against the TLA+ contract (spec/Trace.tla).
//!
//! Exit status: 0 = all scenarios executed (whatever they did), 3 = bad usage / unreadable input.
//! A crash or hang of the code under test kills this process; the orchestrator notices that the
//! progress file names a scenario that has no `end` event.

#[global_allocator]
static GLOBAL: tracked::Counting = tracked::Counting;

mod bytes;
mod drv;
mod ev;
mod tracked;
mod zst;

use serde_json::Value;
use std::io::{BufRead, BufReader, Write};

#[cfg(feature = "unstable")]
pub const FEAT: &str = "unstable";
#[cfg(all(not(feature = "unstable"), feature = "eio", feature = "eio-async"))]
pub const FEAT: &str = "eio+eio-async";
#[cfg(all(not(feature = "unstable"), feature = "eio", not(feature = "eio-async")))]
pub const FEAT: &str = "eio";
#[cfg(all(not(feature = "unstable"), not(feature = "eio"), feature = "eio-async"))]
pub const FEAT: &str = "eio-async";
#[cfg(all(not(feature = "unstable"), not(feature = "eio"), not(feature = "eio-async")))]
pub const FEAT: &str = "default";

thread_local! { static LAST_DIGEST: std::cell::Cell<u64> = std::cell::Cell::new(0); }
thread_local! { static LAST_DIGEST2: std::cell::Cell<u64> = std::cell::Cell::new(0); }
pub fn set_digest(d: u64) {
    LAST_DIGEST.with(|c| c.set(d));
    LAST_DIGEST2.with(|c| c.set(0));
}

fn mk_sub(n: u64, scn: &str) -> Option<Box<dyn drv::Sub>> {
    macro_rules! arm {
        ($($k:literal),*) => {
            match n {
                $( $k => Some(Box::new(drv::Drv::<$k>::new(scn, FEAT)) as Box<dyn drv::Sub>), )*
                _ => None,
            }
        };
    }
    arm!(0, 1, 2, 3, 4, 5, 6, 7, 8, 16, 33)
}

/// one scenario on `CircularBuffer<N, Tracked>`; steps carrying `"cap": M` are routed to a sibling
/// driver for capacity M (used for comparisons between buffers of different capacities)
fn run_tracked(n: u64, scn: &str, steps: &[Value]) -> Option<String> {
    tracked::reset_scenario();
    let mut drivers: Vec<(u64, Box<dyn drv::Sub>)> = vec![(n, mk_sub(n, scn)?)];
    let mut out = String::with_capacity(1 << 16);
    let mut b = ev::Ev::new("begin", "begin");
    b.scn = scn.to_string();
    b.cap = n as i64;
    b.feat = FEAT;
    b.write(&mut out);
    for st in steps {
        let cap = st.get("cap").and_then(|v| v.as_u64()).unwrap_or(n);
        if !drivers.iter().any(|d| d.0 == cap) {
            drivers.push((cap, mk_sub(cap, scn)?));
        }
        // a second operand of another capacity
        let mut peer = None;
        if let Some(c2) = st.get("cap2").and_then(|v| v.as_u64()) {
            if c2 != cap {
                let h2 = st.get("h2").and_then(|v| v.as_i64()).unwrap_or(-1);
                if let Some(d2) = drivers.iter().find(|d| d.0 == c2) {
                    peer = Some((c2 as usize, d2.1.buf_ptr(h2)));
                }
            }
        }
        let d = drivers.iter_mut().find(|d| d.0 == cap).unwrap();
        d.1.set_peer(peer);
        d.1.do_step(st);
        d.1.set_peer(None);
        out.push_str(&d.1.take_out());
    }
    let mut dig = 0u64;
    for (k, d) in drivers.iter_mut().enumerate().rev() {
        // the main driver finishes last and writes the end-of-scenario event
        d.1.do_finish(k == 0);
        out.push_str(&d.1.take_out());
        dig = dig.rotate_left(17) ^ d.1.digest();
    }
    set_digest(dig);
    LAST_DIGEST2.with(|c| c.set(drivers[0].1.digest2()));
    Some(out)
}

fn main() {
    let args: Vec<String> = std::env::args().collect();
    if args.len() < 4 || args[1] != "run" {
        eprintln!("usage: cbv run <scenarios.ndjson> <trace-out.ndjson> [--only K] [--progress FILE]");
        std::process::exit(3);
    }
    let mut only: Option<usize> = None;
    let mut progress: Option<String> = None;
    let mut digest: Option<String> = None;
    let mut k = 4;
    while k < args.len() {
        match args[k].as_str() {
            "--only" => {
                only = args.get(k + 1).and_then(|s| s.parse().ok());
                k += 2;
            }
            "--digest" => {
                digest = args.get(k + 1).cloned();
                k += 2;
            }
            "--progress" => {
                progress = args.get(k + 1).cloned();
                k += 2;
            }
            _ => k += 1,
        }
    }
    // panics of the code under test are data; keep stderr quiet
    std::panic::set_hook(Box::new(|_| {}));

    let f = match std::fs::File::open(&args[2]) {
        Ok(f) => f,
        Err(e) => {
            eprintln!("cannot open {}: {}", args[2], e);
            std::process::exit(3);
        }
    };
    let mut out = std::io::BufWriter::with_capacity(1 << 20, std::fs::File::create(&args[3]).expect("create trace file"));
    let mut digs = String::new();
    let mut nscn = 0usize;
    let mut unknown = 0usize;
    for (lineno, line) in BufReader::new(f).lines().enumerate() {
        let line = line.expect("read");
        if line.trim().is_empty() {
            continue;
        }
        if let Some(o) = only {
            if o != lineno {
                continue;
            }
        }
        let sc: Value = match serde_json::from_str(&line) {
            Ok(v) => v,
            Err(e) => {
                eprintln!("bad scenario line {}: {}", lineno, e);
                std::process::exit(3);
            }
        };
        let scn = sc.get("id").and_then(|v| v.as_str()).unwrap_or("?").to_string();
        let ty = sc.get("ty").and_then(|v| v.as_str()).unwrap_or("t");
        let empty = Vec::new();
        let steps = sc.get("steps").and_then(|v| v.as_array()).unwrap_or(&empty);
        if let Some(p) = &progress {
            // which scenario is running: survives an abort of the process
            let _ = std::fs::write(p, format!("{} {}\n", lineno, scn));
        }
        let text = match ty {
            "t" => {
                let n = sc.get("n").and_then(|v| v.as_u64()).unwrap_or(0);
                run_tracked(n, &scn, steps)
            }
            "b" => bytes::run(&sc, &scn, steps),
            "z" => zst::run(&sc, &scn, steps),
            _ => None,
        };
        match text {
            Some(t) => {
                digs.push_str(&format!("{} {:016x} {:016x}\n", scn, LAST_DIGEST.with(|c| c.get()), LAST_DIGEST2.with(|c| c.get())));
                out.write_all(t.as_bytes()).expect("write trace");
                nscn += 1;
            }
            None => unknown += 1,
        }
    }
    out.flush().expect("flush");
    if let Some(d) = &digest {
        let _ = std::fs::write(d, digs);
    }
    if let Some(p) = &progress {
        let _ = std::fs::write(p, "done\n");
    }
    eprintln!("cbv: {} scenarios executed, {} not executable in this build", nscn, unknown);
}
