//! Driver for zero-sized elements at extreme capacities (C19). Filled in below.
use serde_json::Value;
pub fn run(_sc: &Value, _scn: &str, _steps: &[Value]) -> Option<String> { None }
