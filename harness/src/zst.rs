//! Driver for zero-sized elements at extreme capacities (C19). Elements have no identity: the trace
//! carries lengths, flags, result kinds and the created / destroyed counters. Records, judges nothing.

use crate::drv::{call, gbound, gi, gs};
use crate::ev::{dec, enc, Ev, Post, Ret};
use crate::tracked::{self, zst_counts, Zst};
use circular_buffer::{CircularBuffer, Drain, Iter, IterMut};
use serde_json::Value;
use std::ops::Bound;
use std::panic::{catch_unwind, AssertUnwindSafe};

type Buf<const N: usize> = CircularBuffer<N, Zst>;

enum ZView<const N: usize> {
    It(Iter<'static, Zst>),
    Im(IterMut<'static, Zst>),
    Dr(Drain<'static, N, Zst>),
}

struct ZDrv<const N: usize> {
    buf: *mut Buf<N>,
    view: Option<ZView<N>>,
    held: Vec<Zst>,
    out: String,
    scn: String,
    dig: u64,
}

fn to_bound(b: (&'static str, i64)) -> Bound<usize> {
    match b.0 {
        "i" => Bound::Included(dec(b.1)),
        "e" => Bound::Excluded(dec(b.1)),
        _ => Bound::Unbounded,
    }
}

impl<const N: usize> ZDrv<N> {
    fn obs(&self) -> Post {
        if self.buf.is_null() || matches!(self.view, Some(ZView::Dr(_)) | Some(ZView::Im(_))) {
            return Post::default();
        }
        let r = catch_unwind(AssertUnwindSafe(|| {
            let b = unsafe { &*self.buf };
            let (a, c) = b.as_slices();
            Post {
                obs: true,
                len: enc(b.len()),
                empty: b.is_empty(),
                full: b.is_full(),
                split: enc(a.len()),
                cap: enc(b.capacity()),
                // for elements without identity `seq` only says how many elements both slices show
                seq: vec![enc(a.len() + c.len())],
                ..Default::default()
            }
        }));
        r.unwrap_or(Post { obs: true, len: -2, ..Default::default() })
    }

    fn emit(&mut self, mut ev: Ev) {
        ev.scn = self.scn.clone();
        ev.feat = crate::FEAT;
        ev.ty = "z";
        ev.cap = enc(N);
        let (c, d) = zst_counts();
        ev.ret.ids2 = vec![c as i64, d as i64, self.held.len() as i64];
        ev.digest(&mut self.dig);
        ev.write(&mut self.out);
    }

    fn opt(&mut self, r: Option<Zst>) -> Ret {
        match r {
            Some(x) => {
                self.held.push(x);
                Ret { k: "some", ..Default::default() }
            }
            None => Ret::none(),
        }
    }

    fn step(&mut self, st: &Value) {
        let op = gs(st, "op").to_string();
        let mut ev = Ev::new("call", &op);
        ev.h = 0;
        let i = gi(st, "i", 0);
        let j = gi(st, "j", 0);
        ev.i = i;
        ev.j = j;
        if op == "new" {
            let r = call(&mut ev, None, || Box::new(Buf::<N>::new()));
            if let Some(b) = r {
                self.buf = Box::into_raw(b);
            }
            ev.allocs = -1;
            ev.post = self.obs();
            return self.emit(ev);
        }
        if op == "caller_drop" {
            ev.h = -1;
            let n = self.held.len() as i64;
            self.held.clear();
            ev.i = n;
            return self.emit(ev);
        }
        if self.buf.is_null() {
            return;
        }
        let b: &mut Buf<N> = unsafe { &mut *self.buf };
        let viewing = self.view.is_some();
        match op.as_str() {
            "push_back" | "push_front" if !viewing => {
                let x = Zst::new();
                let r = call(&mut ev, None, || if op == "push_back" { b.push_back(x) } else { b.push_front(x) });
                if let Some(r) = r {
                    ev.ret = self.opt(r);
                }
            }
            "try_push_back" | "try_push_front" if !viewing => {
                let x = Zst::new();
                let r = call(&mut ev, None, || if op == "try_push_back" { b.try_push_back(x) } else { b.try_push_front(x) });
                if let Some(r) = r {
                    ev.ret = match r {
                        Ok(()) => Ret::ok(),
                        Err(x) => {
                            self.held.push(x);
                            Ret { k: "err", ..Default::default() }
                        }
                    };
                }
            }
            "pop_back" | "pop_front" if !viewing => {
                let r = call(&mut ev, None, || if op == "pop_back" { b.pop_back() } else { b.pop_front() });
                if let Some(r) = r {
                    ev.ret = self.opt(r);
                }
            }
            "remove" | "swap_remove_back" | "swap_remove_front" if !viewing => {
                let ix = dec(i);
                let r = call(&mut ev, None, || match op.as_str() {
                    "remove" => b.remove(ix),
                    "swap_remove_back" => b.swap_remove_back(ix),
                    _ => b.swap_remove_front(ix),
                });
                if let Some(r) = r {
                    ev.ret = self.opt(r);
                }
            }
            "swap" if !viewing => {
                let (ix, jx) = (dec(i), dec(j));
                if call(&mut ev, None, || b.swap(ix, jx)).is_some() {
                    ev.ret = Ret::unit();
                }
            }
            "truncate_back" | "truncate_front" | "clear" if !viewing => {
                let n = dec(i);
                if call(&mut ev, None, || match op.as_str() {
                    "truncate_back" => b.truncate_back(n),
                    "truncate_front" => b.truncate_front(n),
                    _ => b.clear(),
                })
                .is_some()
                {
                    ev.ret = Ret::unit();
                }
            }
            "extend_from_slice" | "extend" if !viewing => {
                let k = dec(i).min(64);
                let src: Vec<Zst> = (0..k).map(|_| Zst::new()).collect();
                ev.ids = vec![0; k];
                let r = if op == "extend" {
                    call(&mut ev, None, || b.extend(src))
                } else {
                    let r = call(&mut ev, None, || b.extend_from_slice(&src));
                    self.held.extend(src);
                    r
                };
                if r.is_some() {
                    ev.ret = Ret::unit();
                }
            }
            "make_contiguous" if !viewing => {
                if let Some(n) = call(&mut ev, None, || b.make_contiguous().len()) {
                    ev.ret = Ret::num(enc(n));
                }
            }
            "get" | "nth_front" | "nth_back" | "get_mut" | "nth_front_mut" | "nth_back_mut" | "index" | "index_mut" if !viewing => {
                let ix = dec(i);
                let r = call(&mut ev, None, || match op.as_str() {
                    "get" => b.get(ix).is_some(),
                    "nth_front" => b.nth_front(ix).is_some(),
                    "nth_back" => b.nth_back(ix).is_some(),
                    "get_mut" => b.get_mut(ix).is_some(),
                    "nth_front_mut" => b.nth_front_mut(ix).is_some(),
                    "nth_back_mut" => b.nth_back_mut(ix).is_some(),
                    "index" => {
                        let _ = &b[ix];
                        true
                    }
                    _ => {
                        let _ = &mut b[ix];
                        true
                    }
                });
                if let Some(r) = r {
                    ev.ret = if r { Ret { k: "some", ..Default::default() } } else { Ret::none() };
                }
            }
            "front" | "back" | "front_mut" | "back_mut" if !viewing => {
                let r = call(&mut ev, None, || match op.as_str() {
                    "front" => b.front().is_some(),
                    "back" => b.back().is_some(),
                    "front_mut" => b.front_mut().is_some(),
                    _ => b.back_mut().is_some(),
                });
                if let Some(r) = r {
                    ev.ret = if r { Ret { k: "some", ..Default::default() } } else { Ret::none() };
                }
            }
            "as_slices" | "as_mut_slices" if !viewing => {
                let r = call(&mut ev, None, || {
                    if op == "as_slices" {
                        let (a, c) = b.as_slices();
                        (a.len(), c.len())
                    } else {
                        let (a, c) = b.as_mut_slices();
                        (a.len(), c.len())
                    }
                });
                if let Some((a, c)) = r {
                    ev.ret = Ret { k: "slices", n: enc(a + c), slots: vec![enc(a), enc(c)], ..Default::default() };
                }
            }
            "drain" | "range" | "iter" | "range_mut" | "iter_mut" if !viewing => {
                let bs = gbound(st, "bs");
                let be = gbound(st, "be");
                ev.bs = bs;
                ev.be = be;
                ev.v = 0;
                let rb = (to_bound(bs), to_bound(be));
                let bb: &'static mut Buf<N> = unsafe { &mut *self.buf };
                let r = call(&mut ev, None, || match op.as_str() {
                    "drain" => ZView::Dr(bb.drain(rb)),
                    "range" => ZView::It(bb.range(rb)),
                    "range_mut" => ZView::Im(bb.range_mut(rb)),
                    "iter_mut" => ZView::Im(bb.iter_mut()),
                    _ => ZView::It(bb.iter()),
                });
                if let Some(v) = r {
                    ev.ret = Ret::num(match &v {
                        ZView::Dr(d) => d.len() as i64,
                        ZView::It(d) => d.len() as i64,
                        ZView::Im(d) => d.len() as i64,
                    });
                    self.view = Some(v);
                }
            }
            "v_next" | "v_next_back" if viewing => {
                ev.v = 0;
                let front = op == "v_next";
                let mut got: Option<Zst> = None;
                let r = match self.view.as_mut().unwrap() {
                    ZView::Dr(d) => call(&mut ev, None, || {
                        let x = if front { d.next() } else { d.next_back() };
                        let some = x.is_some();
                        got = x;
                        some
                    }),
                    ZView::It(d) => call(&mut ev, None, || (if front { d.next() } else { d.next_back() }).is_some()),
                    ZView::Im(d) => call(&mut ev, None, || (if front { d.next() } else { d.next_back() }).is_some()),
                };
                if let Some(x) = got {
                    self.held.push(x);
                }
                if let Some(r) = r {
                    ev.ret = if r { Ret { k: "some", ..Default::default() } } else { Ret::none() };
                }
            }
            "v_len" if viewing => {
                ev.v = 0;
                let n = match self.view.as_ref().unwrap() {
                    ZView::Dr(d) => d.len(),
                    ZView::It(d) => d.len(),
                    ZView::Im(d) => d.len(),
                };
                ev.ret = Ret { k: "n", n: n as i64, ids2: vec![], ..Default::default() };
            }
            "v_drop" if viewing => {
                ev.v = 0;
                let v = self.view.take().unwrap();
                if call(&mut ev, None, move || drop(v)).is_some() {
                    ev.ret = Ret::unit();
                }
            }
            "drop_buf" if !viewing => {
                let bx = unsafe { Box::from_raw(self.buf) };
                self.buf = std::ptr::null_mut();
                if call(&mut ev, None, move || drop(bx)).is_some() {
                    ev.ret = Ret::unit();
                }
            }
            _ => return,
        }
        ev.post = self.obs();
        self.emit(ev);
    }
}

fn run_n<const N: usize>(scn: &str, steps: &[Value]) -> String {
    tracked::reset_scenario();
    let mut d = ZDrv::<N> { buf: std::ptr::null_mut(), view: None, held: Vec::with_capacity(64), out: String::new(),
                            scn: scn.to_string(), dig: 0xcbf29ce484222325 };
    let mut b = Ev::new("begin", "begin");
    b.scn = scn.to_string();
    b.cap = enc(N);
    b.feat = crate::FEAT;
    b.ty = "z";
    b.write(&mut d.out);
    for st in steps {
        d.step(st);
    }
    if d.view.is_some() {
        d.step(&serde_json::json!({"op": "v_drop"}));
    }
    if !d.buf.is_null() {
        d.step(&serde_json::json!({"op": "drop_buf"}));
    }
    d.step(&serde_json::json!({"op": "caller_drop"}));
    let mut e = Ev::new("end", "end");
    e.scn = scn.to_string();
    e.ty = "z";
    e.cap = enc(N);
    e.feat = crate::FEAT;
    let (c, dd) = zst_counts();
    e.ret.ids2 = vec![c as i64, dd as i64, 0];
    e.write(&mut d.out);
    crate::set_digest(d.dig);
    d.out
}

pub fn run(sc: &Value, scn: &str, steps: &[Value]) -> Option<String> {
    let code = sc.get("ncode").and_then(|v| v.as_str()).unwrap_or("");
    const P63: usize = 1usize << 63;
    const P32: usize = 1usize << 32;
    Some(match code {
        "max" => run_n::<{ usize::MAX }>(scn, steps),
        "max-1" => run_n::<{ usize::MAX - 1 }>(scn, steps),
        "p63+1" => run_n::<{ P63 + 1 }>(scn, steps),
        "p63" => run_n::<{ P63 }>(scn, steps),
        "p63-1" => run_n::<{ P63 - 1 }>(scn, steps),
        "p32+1" => run_n::<{ P32 + 1 }>(scn, steps),
        "p32" => run_n::<{ P32 }>(scn, steps),
        "p32-1" => run_n::<{ P32 - 1 }>(scn, steps),
        "5" => run_n::<5>(scn, steps),
        "3" => run_n::<3>(scn, steps),
        "1" => run_n::<1>(scn, steps),
        "0" => run_n::<0>(scn, steps),
        _ => return None,
    })
}
