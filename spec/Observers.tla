----------------------------- MODULE Observers -----------------------------
(***************************************************************************)
(* The read-only algorithms that look at two buffers (or a buffer and a    *)
(* slice): PartialEq between buffers of capacities N and M with its        *)
(* three-way alignment of the physical segments (lib.rs, impl PartialEq),  *)
(* PartialEq<[U]>, the iterator-based ordering, and the hash feed.         *)
(*                                                                         *)
(* Theorem checked by TLC over every pair of physical states (every front  *)
(* position x every length x every contents over a two-letter alphabet,    *)
(* on both sides): each algorithm equals the corresponding function of the *)
(* two abstract sequences (C13: only the logical contents matter).         *)
(* Every pair is also printed as a scenario for the conformance harness.   *)
(***************************************************************************)
EXTENDS Integers, Sequences, FiniteSets, TLC, Json

CONSTANTS N, M, MaxU

VARIABLES a, b, done
vars == <<a, b, done>>

Min(x, y) == IF x <= y THEN x ELSE y
AddMod(x, y, m) == LET s == x + y  ov == s > MaxU  z == IF ov THEN s - (MaxU + 1) ELSE s IN
                   (z + (IF ov THEN (MaxU % m) + 1 ELSE 0)) % m

\* a physical buffer: cap, start, size, and the payloads front to back (what matters to Eq/Ord/Hash)
Bufs(cap) == { [cap |-> cap, start |-> st, size |-> sz, vals |-> v] :
                 st \in (IF cap = 0 THEN {0} ELSE 0..(cap - 1)), sz \in 0..cap, v \in UNION {[1..k -> {0, 1}] : k \in 0..cap} }
WellFormed(x) == Len(x.vals) = x.size

\* as_slices(): the two segments, as sequences of payloads
Slices(x) ==
    IF x.cap = 0 \/ x.size = 0 THEN <<<<>>, <<>>>>
    ELSE LET end == AddMod(x.start, x.size, x.cap) IN
         IF x.start < end THEN <<x.vals, <<>>>>
         ELSE LET k == x.cap - x.start IN <<SubSeq(x.vals, 1, k), SubSeq(x.vals, k + 1, x.size)>>

\* impl PartialEq<CircularBuffer<M, U>> for CircularBuffer<N, T>
EqImpl(x, y) ==
    IF x.size # y.size THEN FALSE
    ELSE LET al == Slices(x)[1]  ar == Slices(x)[2]  bl == Slices(y)[1]  br == Slices(y)[2] IN
         IF Len(al) < Len(bl)
         THEN LET p == Len(al)  q == Len(bl) - p IN
              /\ al = SubSeq(bl, 1, p)
              /\ SubSeq(ar, 1, q) = SubSeq(bl, p + 1, Len(bl))
              /\ SubSeq(ar, q + 1, Len(ar)) = br
         ELSE IF Len(al) > Len(bl)
         THEN LET p == Len(bl)  q == Len(al) - p IN
              /\ SubSeq(al, 1, p) = bl
              /\ SubSeq(al, p + 1, Len(al)) = SubSeq(br, 1, q)
              /\ ar = SubSeq(br, q + 1, Len(br))
         ELSE al = bl /\ ar = br

\* impl PartialEq<[U]>: split the slice at the length of the first segment
EqSliceImpl(x, s) ==
    IF x.size # Len(s) THEN FALSE
    ELSE LET al == Slices(x)[1]  ar == Slices(x)[2] IN
         al = SubSeq(s, 1, Len(al)) /\ ar = SubSeq(s, Len(al) + 1, Len(s))

\* iter(): first segment then second; ordering and hashing go through it
IterOf(x) == Slices(x)[1] \o Slices(x)[2]
HashFeed(x) == <<x.size>> \o IterOf(x)

Theorem ==
    /\ IterOf(a) = a.vals /\ IterOf(b) = b.vals
    /\ EqImpl(a, b) = (a.vals = b.vals)
    /\ EqImpl(b, a) = (a.vals = b.vals)
    /\ EqSliceImpl(a, b.vals) = (a.vals = b.vals)
    /\ (a.vals = b.vals /\ a.cap = b.cap => HashFeed(a) = HashFeed(b))

Init == a \in {x \in Bufs(N) : WellFormed(x)} /\ b \in {x \in Bufs(M) : WellFormed(x)} /\ done = FALSE
Next == ~done /\ done' = TRUE /\ UNCHANGED <<a, b>>
Spec == Init /\ [][Next]_vars

Emit == PrintT("SCN " \o ToJson([a |-> a, b |-> b]))
=============================================================================
