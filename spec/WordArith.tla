----------------------------- MODULE WordArith -----------------------------
(***************************************************************************)
(* The arithmetic core of circular-buffer at the real word width.          *)
(*                                                                         *)
(* add_mod / sub_mod (src/lib.rs:240-257) compute (x + y) mod m with       *)
(* usize::overflowing_add and a correction term.  For EVERY capacity       *)
(* 0 < m <= usize::MAX = 2^64 - 1 and all x, y <= m (the debug_assert-ed   *)
(* preconditions), Apalache (SMT) decides that                             *)
(*   - the machine computation equals the mathematical (x + y) mod m,      *)
(*   - its intermediate sum never itself exceeds the machine word,         *)
(*   - the result equals the division-free closed form used by Shape.tla.  *)
(* Checked with:  apalache-mc check --inv=Lemma --length=0 WordArith.tla   *)
(* (x, y, m symbolic; one obligation for all 2^64 capacities).             *)
(* Sanity mutants (must be refuted): --inv=MutantNoPlusOne,                *)
(* --inv=MutantNoOverflow.                                                 *)
(***************************************************************************)
EXTENDS Integers

MaxU == 18446744073709551615

VARIABLES
    \* @type: Int;
    x,
    \* @type: Int;
    y,
    \* @type: Int;
    m

\* usize::overflowing_add
WrapSum(a, b) == IF a + b > MaxU THEN a + b - (MaxU + 1) ELSE a + b
Ovf(a, b) == a + b > MaxU
\* the value before the final `% m`
Inter(a, b, c) == WrapSum(a, b) + (IF Ovf(a, b) THEN (MaxU % c) + 1 ELSE 0)
AddModW(a, b, c) == Inter(a, b, c) % c
SubModW(a, b, c) == AddModW(a, c - b, c)

\* division-free closed form (valid for a, b <= c)
Closed(a, b, c) == IF a + b < c THEN a + b ELSE IF a + b < 2 * c THEN a + b - c ELSE 0

Init ==
    /\ x \in Int /\ y \in Int /\ m \in Int
    /\ 0 < m /\ m <= MaxU
    /\ 0 <= x /\ x <= m
    /\ 0 <= y /\ y <= m
Next == UNCHANGED <<x, y, m>>

Lemma ==
    /\ AddModW(x, y, m) = (x + y) % m
    /\ Inter(x, y, m) <= MaxU
    /\ Inter(x, y, m) >= 0
    /\ AddModW(x, y, m) = Closed(x, y, m)
    /\ AddModW(x, y, m) < m
    /\ m - y >= 0
    /\ SubModW(x, y, m) = (x + m - y) % m
    /\ SubModW(x, y, m) = Closed(x, m - y, m)

\* what the code would compute without the `+ 1` in the correction term: must be refuted
MutantNoPlusOne == (WrapSum(x, y) + (IF Ovf(x, y) THEN (MaxU % m) ELSE 0)) % m = (x + y) % m
\* "x + y never overflows": must be refuted
MutantNoOverflow == x + y <= MaxU
=============================================================================
