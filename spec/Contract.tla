------------------------------ MODULE Contract ------------------------------
(***************************************************************************)
(* L0 - the contract of circular-buffer, at the level of recorded calls.   *)
(*                                                                         *)
(* This module is constant-level (no variables).  It defines               *)
(*   - the abstract state S of a client program: bounded deques of element *)
(*     ids, an ownership ledger for every element, live views;             *)
(*   - for one recorded call e (operation, arguments, the user callbacks   *)
(*     that ran inside it, whether it unwound, its result and the          *)
(*     observed contents afterwards)                                       *)
(*         Fail(S, e)  the set of contract clauses the call violates,      *)
(*                     each labelled with the property ids it expresses    *)
(*         Next(S, e)  the abstract state after the call.                  *)
(* The same two operators are used                                         *)
(*   - by Trace.tla  to validate traces recorded from the real code,       *)
(*   - by Ring.tla   (the mechanism, L1) as the refinement obligation:     *)
(*     every call the mechanism can complete satisfies Fail = {},          *)
(*   - by ContractMC.tla to explore the contract on its own.               *)
(*                                                                         *)
(* Integers live in a code domain shared with the harness: values below    *)
(* Small are themselves, Top stands for usize::MAX (Top - k for            *)
(* usize::MAX - k), anything else >= Small is "huge".                      *)
(***************************************************************************)
EXTENDS Integers, Sequences, FiniteSets, TLC

Small == 1048576
Top   == 1073741824

Min(a, b) == IF a <= b THEN a ELSE b
Max(a, b) == IF a >= b THEN a ELSE b
Range(s)  == {s[i] : i \in DOMAIN s}
Distinct(s) == \A i, j \in DOMAIN s : i # j => s[i] # s[j]
Take(s, k)  == SubSeq(s, 1, Min(k, Len(s)))
DropN(s, k) == SubSeq(s, Min(k, Len(s)) + 1, Len(s))
LastN(s, k) == IF k >= Len(s) THEN s ELSE SubSeq(s, Len(s) - k + 1, Len(s))
Rev(s) == [i \in 1..Len(s) |-> s[Len(s) + 1 - i]]
Without(s, i) == SubSeq(s, 1, i - 1) \o SubSeq(s, i + 1, Len(s))   \* 1-based position i
PosOf(s, x) == CHOOSE i \in DOMAIN s : s[i] = x
EmptyF == [x \in {} |-> 0]
Upd(f, k, v) == [x \in DOMAIN f \cup {k} |-> IF x = k THEN v ELSE f[x]]
Del(f, k) == [x \in DOMAIN f \ {k} |-> f[x]]
Lab(props, name) == <<props, name>>
Chk(ok, props, name) == IF ok THEN {} ELSE {Lab(props, name)}

(***************************************************************************)
(* The abstract state.                                                     *)
(***************************************************************************)
InitS == [ bufs  |-> EmptyF,   \* handle -> [cap, seq, slot, split, lock]
           views |-> EmptyF,   \* handle -> [kind, h, win, pre, a, b]
           held  |-> {},       \* elements the caller owns
           nd    |-> EmptyF,   \* element -> number of destructor runs so far (domain = elements ever created)
           val   |-> EmptyF,   \* element -> payload
           limbo |-> EmptyF,   \* element -> [h, why]: unaccounted for after a permitted leak
           taint |-> "" ]      \* "" | "drop" | "user" | "forget": what kind of fault this history has seen

Nd(S, id)  == IF id \in DOMAIN S.nd THEN S.nd[id] ELSE 0
Val(S, id) == IF id \in DOMAIN S.val THEN S.val[id] ELSE -1
HasBuf(S, h)  == h \in DOMAIN S.bufs
HasView(S, v) == v \in DOMAIN S.views
BufSeq(S, h)  == IF HasBuf(S, h) THEN S.bufs[h].seq ELSE <<>>
BufCap(S, h)  == IF HasBuf(S, h) THEN S.bufs[h].cap ELSE 0
LimboOf(S, h) == {id \in DOMAIN S.limbo : S.limbo[id].h = h}
Vals(S, s)    == [i \in 1..Len(s) |-> Val(S, s[i])]

(***************************************************************************)
(* What the callbacks recorded inside a call tell.                         *)
(***************************************************************************)
CbIdx(e, k)   == {i \in DOMAIN e.cbs : e.cbs[i].k = k}
DropIds(e)    == {e.cbs[i].id : i \in CbIdx(e, "drop")}
DropCnt(e, id) == Cardinality({i \in CbIdx(e, "drop") : e.cbs[i].id = id})
CloneNew(e)   == {e.cbs[i].id : i \in CbIdx(e, "clone")}
CloneSrc(e, id) == e.cbs[CHOOSE i \in CbIdx(e, "clone") : e.cbs[i].id = id].src
IsGen(c)      == c.k = "gen" \/ c.k = "iter"
GenCbs(e)     == SelectSeq(e.cbs, IsGen)
GenSeq(e)     == [i \in 1..Len(GenCbs(e)) |-> GenCbs(e)[i].id]
Created(e)    == CloneNew(e) \cup Range(GenSeq(e))
HasGarbage(e) == CbIdx(e, "garbage") # {}
\* the harness marks the callback in which the armed fault fired: src = 0 for a destructor
FaultKind(e)  == IF CbIdx(e, "panic") = {} THEN ""
                 ELSE LET i == CHOOSE j \in CbIdx(e, "panic") : TRUE IN
                      IF e.cbs[i].src = 0 THEN "drop" ELSE "user"

(***************************************************************************)
(* Operation classes.                                                      *)
(***************************************************************************)
PushOps   == {"push_back", "push_front", "try_push_back", "try_push_front"}
ByValArg  == PushOps \cup {"fill", "fill_spare", "from_array"}      \* e.ids are moved into the call
ByRefArg  == {"extend_from_slice", "eq_slice", "mk"}                \* e.ids are created by and stay with the caller
MutOps    == PushOps \cup {"pop_back", "pop_front", "remove", "swap", "swap_remove_back",
              "swap_remove_front", "truncate_back", "truncate_front", "clear", "fill", "fill_spare",
              "fill_with", "fill_spare_with", "extend", "extend_from_slice", "make_contiguous",
              "clone_from"}
GetOps    == {"get", "nth_front", "nth_back", "index", "get_mut", "nth_front_mut", "nth_back_mut",
              "index_mut", "front", "back", "front_mut", "back_mut"}
ReadOps   == GetOps \cup {"as_slices", "as_mut_slices", "observe", "expect_layout", "to_vec", "clone", "eq", "ne", "lt", "le",
              "gt", "ge", "partial_cmp", "cmp", "hash", "debug", "eq_slice", "write_via", "poison"}
CtorOps   == {"new", "default", "boxed", "from_array", "from_iter"}
ViewNew   == {"iter", "iter_mut", "range", "range_mut", "drain"}
ViewOps   == {"v_next", "v_next_back", "v_nth", "v_nth_back", "v_len", "v_size_hint", "v_clone", "v_rest", "v_debug",
              "v_drop", "v_forget"}
AllocOps  == {"boxed", "to_vec"}
RetByVal  == PushOps \cup {"pop_back", "pop_front", "remove", "swap_remove_back", "swap_remove_front",
              "to_vec"}

\* which properties a clause about operation op belongs to
Home(op) == CASE op \in PushOps -> "C01,C02"
              [] op = "clone_from" -> "C12"
              [] op \in {"drain"} -> "C01,C09"
              [] op \in MutOps -> "C01"
              [] op \in CtorOps \cup {"clone", "to_vec", "into_iter", "clone_from"} -> "C12"
              [] op \in GetOps \cup {"as_slices", "as_mut_slices", "observe", "write_via"} -> "C07"
              [] op \in {"eq", "ne", "lt", "le", "gt", "ge", "partial_cmp", "cmp", "hash", "debug", "eq_slice"} -> "C13"
              [] op \in {"iter", "iter_mut", "range", "range_mut", "iter_default", "iter_mut_default"} -> "C08"
              [] OTHER -> "C01"
\* (C12: "turning a buffer into its owning iterator and collecting it returns the original elements in order")
ViewHome(kind) == CASE kind = "drain" -> "C09" [] kind = "into" -> "C08,C12" [] OTHER -> "C08"
CapOf(S, e) == IF e.h \in DOMAIN S.bufs THEN S.bufs[e.h].cap ELSE e.cap

HomeE(S, e) == IF e.op \in ViewOps /\ e.v \in DOMAIN S.views THEN ViewHome(S.views[e.v].kind) ELSE Home(e.op)

(***************************************************************************)
(* Range bounds, with the checked arithmetic the documentation implies.    *)
(***************************************************************************)
BStart(b)    == CASE b.t = "i" -> b.x [] b.t = "e" -> b.x + 1 [] OTHER -> 0
BEnd(b, n)   == CASE b.t = "i" -> b.x + 1 [] b.t = "e" -> b.x [] OTHER -> n
BadRange(bs, be, n) ==
    \/ bs.t = "e" /\ bs.x >= Top          \* start + 1 does not exist
    \/ be.t = "i" /\ be.x >= Top
    \/ BEnd(be, n) > n
    \/ BStart(bs) > BEnd(be, n)

(***************************************************************************)
(* Expected contents, as a sequence of terms: the very element (same), a   *)
(* clone of it made during this call (clone), or either (any).             *)
(***************************************************************************)
Same(ids)  == [i \in 1..Len(ids) |-> [t |-> "same", id |-> ids[i]]]
Clones(ids) == [i \in 1..Len(ids) |-> [t |-> "clone", id |-> ids[i]]]
Rep(x, k)  == [i \in 1..k |-> [t |-> "any", id |-> x]]
Match(e, term, id) ==
    CASE term.t = "same"  -> id = term.id
      [] term.t = "clone" -> id \in CloneNew(e) /\ CloneSrc(e, id) = term.id
      [] OTHER            -> id = term.id \/ (id \in CloneNew(e) /\ CloneSrc(e, id) = term.id)
MatchSeq(e, terms, s) == Len(terms) = Len(s) /\ \A i \in 1..Len(s) : Match(e, terms[i], s[i])

Arg1(e) == IF Len(e.ids) >= 1 THEN e.ids[1] ELSE 0

\* the abstract deque: contents of buffer h after a completed, non-panicking call
ExpSeq(S, e) ==
    LET seq == BufSeq(S, e.h)  cap == BufCap(S, e.h)  n == Len(seq)  x == Arg1(e)  op == e.op IN
    CASE op = "push_back"  -> Same(LastN(seq \o <<x>>, cap))
      [] op = "push_front" -> Same(Take(<<x>> \o seq, cap))
      [] op = "try_push_back"  -> Same(IF n < cap THEN seq \o <<x>> ELSE seq)
      [] op = "try_push_front" -> Same(IF n < cap THEN <<x>> \o seq ELSE seq)
      [] op = "pop_back"  -> Same(Take(seq, Max(n - 1, 0)))
      [] op = "pop_front" -> Same(DropN(seq, 1))
      [] op = "remove" -> Same(IF e.i < n THEN Without(seq, e.i + 1) ELSE seq)
      [] op = "swap" -> Same(IF e.i < n /\ e.j < n
                             THEN [k \in 1..n |-> IF k = e.i + 1 THEN seq[e.j + 1]
                                                   ELSE IF k = e.j + 1 THEN seq[e.i + 1] ELSE seq[k]]
                             ELSE seq)
      [] op = "swap_remove_back"  -> Same(IF e.i < n THEN Take([seq EXCEPT ![e.i + 1] = seq[n]], n - 1) ELSE seq)
      [] op = "swap_remove_front" -> Same(IF e.i < n THEN DropN([seq EXCEPT ![e.i + 1] = seq[1]], 1) ELSE seq)
      [] op = "truncate_back"  -> Same(Take(seq, e.i))
      [] op = "truncate_front" -> Same(LastN(seq, e.i))
      [] op = "clear" -> <<>>
      [] op = "fill" -> Rep(x, cap)
      [] op = "fill_spare" -> Same(seq) \o Rep(x, cap - n)
      [] op = "fill_with" -> Same(GenSeq(e))
      [] op = "fill_spare_with" -> Same(seq \o GenSeq(e))
      [] op = "extend" -> Same(LastN(seq \o GenSeq(e), cap))
      [] op = "extend_from_slice" -> LastN(Same(seq) \o Clones(e.ids), cap)
      [] op = "clone_from" -> Clones(BufSeq(S, e.h2))
      [] op = "from_array" -> Same(LastN(e.ids, e.cap))
      [] op = "from_iter"  -> Same(LastN(GenSeq(e), e.cap))
      [] OTHER -> Same(seq)

\* how many times the user closure / iterator must have been invoked
ExpGens(S, e) ==
    LET n == Len(BufSeq(S, e.h))  cap == BufCap(S, e.h) IN
    CASE e.op = "fill_with" -> cap
      [] e.op = "fill_spare_with" -> cap - n
      [] e.op \in {"extend", "from_iter"} -> Len(e.vals)
      [] OTHER -> 0

RetNone(e)     == e.ret.k = "none"
RetSome(e, id) == e.ret.k = "some" /\ e.ret.ids = <<id>>
RetUnit(e)     == e.ret.k = "unit"

ExpRetOK(S, e) ==
    LET seq == BufSeq(S, e.h)  cap == BufCap(S, e.h)  n == Len(seq)  x == Arg1(e)  op == e.op IN
    CASE op = "push_back"  -> IF cap = 0 THEN RetSome(e, x) ELSE IF n = cap THEN RetSome(e, seq[1]) ELSE RetNone(e)
      [] op = "push_front" -> IF cap = 0 THEN RetSome(e, x) ELSE IF n = cap THEN RetSome(e, seq[n]) ELSE RetNone(e)
      [] op \in {"try_push_back", "try_push_front"} ->
            IF n < cap THEN e.ret.k = "ok" ELSE e.ret.k = "err" /\ e.ret.ids = <<x>>
      [] op = "pop_back"  -> IF n = 0 THEN RetNone(e) ELSE RetSome(e, seq[n])
      [] op = "pop_front" -> IF n = 0 THEN RetNone(e) ELSE RetSome(e, seq[1])
      [] op \in {"remove", "swap_remove_back", "swap_remove_front"} ->
            IF e.i < n THEN RetSome(e, seq[e.i + 1]) ELSE RetNone(e)
      [] op \in {"get", "nth_front", "get_mut", "nth_front_mut", "index", "index_mut"} ->
            IF e.i < n THEN RetSome(e, seq[e.i + 1]) ELSE RetNone(e)
      [] op \in {"nth_back", "nth_back_mut"} -> IF e.i < n THEN RetSome(e, seq[n - e.i]) ELSE RetNone(e)
      [] op \in {"front", "front_mut"} -> IF n = 0 THEN RetNone(e) ELSE RetSome(e, seq[1])
      [] op \in {"back", "back_mut"}   -> IF n = 0 THEN RetNone(e) ELSE RetSome(e, seq[n])
      [] op \in {"as_slices", "as_mut_slices"} -> e.ret.k = "slices" /\ e.ret.ids \o e.ret.ids2 = seq
      [] op = "make_contiguous" -> e.ret.k = "ids" /\ e.ret.ids = seq
      [] op = "to_vec" -> e.ret.k = "ids" /\ MatchSeq(e, Clones(seq), e.ret.ids)
      [] op = "into_iter" -> e.ret.k = "n" /\ e.ret.n = n
      [] OTHER -> TRUE

\* the documented panics
DocPanic(S, e) ==
    LET n == Len(BufSeq(S, e.h)) IN
    CASE e.op \in {"range", "range_mut", "drain"} -> BadRange(e.bs, e.be, n)
      [] e.op = "swap" -> e.i >= n \/ e.j >= n
      [] e.op \in {"index", "index_mut"} -> e.i >= n
      [] e.op = "write_via" /\ e.acc = "index_mut" -> e.i >= n
      [] e.op = "write_via" /\ e.acc = "range_mut" -> BadRange(e.bs, e.be, n)
      [] OTHER -> FALSE

(***************************************************************************)
(* Ownership.                                                              *)
(***************************************************************************)
ViewOwned(S, v) == IF HasView(S, v) /\ S.views[v].kind \in {"drain", "into"} THEN Range(S.views[v].win) ELSE {}

\* a live drain borrows the whole buffer: everything in it that has not been handed out
DrainAll(S, v) == IF HasView(S, v) /\ S.views[v].kind = "drain"
                  THEN LET vw == S.views[v] IN Range(vw.pre) \ (Range(SubSeq(vw.pre, vw.a + 1, vw.b)) \ Range(vw.win))
                  ELSE {}
\* elements the call may move or destroy
Owned(S, e) ==
    (IF e.op \in MutOps \cup {"drop_buf", "into_iter"} THEN Range(BufSeq(S, e.h)) \cup LimboOf(S, e.h) ELSE {})
    \cup (IF e.op \in ByValArg \cup {"caller_drop"} THEN Range(e.ids) ELSE {})
    \cup (IF e.op \in ViewOps THEN ViewOwned(S, e.v) \cup (IF HasView(S, e.v) THEN LimboOf(S, S.views[e.v].h) ELSE {}) ELSE {})
    \cup (IF e.op \in {"v_drop", "v_forget"} THEN DrainAll(S, e.v) ELSE {})
    \cup Created(e)

RetIds(e) == IF e.ret.k \in {"some", "err", "ids"} THEN Range(e.ret.ids) ELSE {}
\* elements handed to the caller by value
Handed(S, e) ==
    IF e.op \in RetByVal THEN RetIds(e)
    ELSE IF e.op \in {"v_next", "v_next_back", "v_nth", "v_nth_back", "v_rest"} /\ HasView(S, e.v) /\ S.views[e.v].kind \in {"drain", "into"}
         THEN RetIds(e) ELSE {}

PostSeqOf(S, e) == IF e.post.obs /\ e.post.len >= 0 THEN e.post.seq
                   ELSE IF e.op \in {"drop_buf", "into_iter"} \cup CtorOps THEN <<>> ELSE BufSeq(S, e.h)

\* the window of view v after the call (for views that own elements)
WinAfter(S, e) ==
    IF ~HasView(S, e.v) THEN <<>>
    ELSE LET w == S.views[e.v].win IN
         CASE e.op = "v_next" -> DropN(w, 1)
           [] e.op = "v_next_back" -> Take(w, Max(Len(w) - 1, 0))
           [] e.op = "v_nth" -> DropN(w, e.i + 1)                          \* nth(k): k elements skipped, one yielded
           [] e.op = "v_nth_back" -> Take(w, Max(Len(w) - e.i - 1, 0))
           [] e.op \in {"v_rest", "v_drop", "v_forget"} -> <<>>
           [] OTHER -> w

\* elements still owned by something after the call
Kept(S, e) ==
    (IF e.op \in {"drop_buf", "into_iter"} THEN {} ELSE
       IF e.op \in ViewOps THEN {} ELSE Range(PostSeqOf(S, e)))
    \cup (IF e.op = "clone" /\ e.post2.obs THEN Range(e.post2.seq) ELSE {})
    \cup (IF e.op = "into_iter" THEN Range(BufSeq(S, e.h)) ELSE {})
    \cup (IF e.op \in ViewOps /\ e.op # "v_clone" THEN Range(WinAfter(S, e)) ELSE {})
    \cup (IF e.op \in {"v_drop", "v_forget"} /\ DrainAll(S, e.v) # {} THEN Range(PostSeqOf(S, e)) ELSE {})
    \cup (IF e.op = "v_clone" /\ HasView(S, e.v) /\ S.views[e.v].kind = "into"
          THEN Range(S.views[e.v].win) \cup CloneNew(e) ELSE {})
    \cup Handed(S, e)

AllIdsIn(e) == Range(e.ids) \cup RetIds(e) \cup Range(e.ret.ids2) \cup Range(e.post.seq) \cup Range(e.post2.seq)
               \cup {e.cbs[i].id : i \in DOMAIN e.cbs}
               \cup UNION {Range(e.rows[r].ids) : r \in DOMAIN e.rows}

\* (constructors and conversions promise "destroyed exactly once, independently owned" also when user code
\* panics inside them: their ownership clauses are charged to C12 as well)
FaultTag(S, e) == LET k == IF e.inj THEN FaultKind(e) ELSE S.taint
                      conv == e.op \in CtorOps \cup {"clone", "clone_from", "to_vec", "into_iter"} IN
                  CASE k = "drop" -> (IF conv THEN "C05,C12" ELSE "C05")
                    [] k = "user" -> (IF conv THEN "C06,C12" ELSE "C06")
                    [] k = "forget" -> "C10"
                    [] OTHER -> (IF conv THEN "C03,C12" ELSE "C03")

(***************************************************************************)
(* Clauses that hold for every call, whatever it is.                       *)
(***************************************************************************)
GenericFail(S, e) ==
       \* C04: nothing that is not an element is ever touched or shown
       Chk(~HasGarbage(e) /\ \A id \in AllIdsIn(e) : id >= -2 /\ id # -1 /\ id < 900000, "C04", "garbage_observed")
  \cup \* a destructor runs at most once per element, ever
       Chk(\A id \in DropIds(e) : Nd(S, id) = 0 /\ DropCnt(e, id) = 1, FaultTag(S, e), "double_drop")
  \cup \* only on elements this call owns: never on one the caller or another container can still reach
       Chk(DropIds(e) \subseteq Owned(S, e) \cup DOMAIN S.limbo, FaultTag(S, e), "drop_of_reachable_element")
  \cup \* C04: the buffer never shows an element that was moved out of it or destroyed (a stale slot)
       Chk(~e.post.obs \/ e.ty # "t" \/
           \A id \in Range(e.post.seq) : id \notin (S.held \ Range(e.ids)) /\ Nd(S, id) + DropCnt(e, id) = 0,
           "C04", "stale_element_in_buffer")
  \cup \* C17
       Chk(e.allocs <= 0 \/ e.op \in AllocOps, "C17", "allocation")

\* observed contents are a well-formed bounded sequence of live elements with their payloads
PostFail(S, e, props) ==
    IF ~e.post.obs THEN {}
    ELSE LET p == e.post  cap == CapOf(S, e) IN
       Chk(p.len >= 0, "C11", "observation_panicked")
  \cup Chk(p.len = Len(p.seq) /\ p.empty = (p.len = 0) /\ p.full = (p.len = cap) /\ p.len <= cap /\ p.cap = cap,
           props, "len_flags")
  \cup Chk((Distinct(p.seq) /\ Distinct(p.slots)) \/ (e.ty # "t"), props, "duplicate_element")

(***************************************************************************)
(* A call that returned normally.                                          *)
(***************************************************************************)
NewVal(S, e, id) ==
    \* payload of an element after this call
    IF e.op = "write_via" /\ e.ret.k = "some" /\ id = e.ret.ids[1] THEN e.vals[1]
    ELSE IF id \in CloneNew(e)
         THEN LET src == CloneSrc(e, id) IN
              IF src \in Range(e.ids) /\ e.op \in ByValArg \cup ByRefArg THEN e.vals[PosOf(e.ids, src)] ELSE Val(S, src)
    ELSE IF id \in Range(GenSeq(e)) THEN (IF Len(e.vals) = 0 THEN -1 ELSE e.vals[((PosOf(GenSeq(e), id) - 1) % Len(e.vals)) + 1])
    ELSE IF id \in Range(e.ids) /\ e.op \in ByValArg \cup ByRefArg THEN e.vals[PosOf(e.ids, id)]
    ELSE Val(S, id)

SlotIn(seq, slots, id) == slots[PosOf(seq, id)]
Moved(S, e) ==
    IF ~HasBuf(S, e.h) \/ ~e.post.obs THEN 0
    ELSE LET b == S.bufs[e.h] IN
         Cardinality({id \in Range(b.seq) \cap Range(e.post.seq) :
                         SlotIn(b.seq, b.slot, id) # SlotIn(e.post.seq, e.post.slots, id)})
MoveBound(S, e) ==
    LET n == Len(BufSeq(S, e.h)) IN
    CASE e.op = "remove" -> IF e.i < n THEN n - e.i ELSE 0
      [] e.op = "make_contiguous" \/ (e.op = "write_via" /\ e.acc = "make_contiguous") ->
            IF HasBuf(S, e.h) /\ S.bufs[e.h].split = n THEN 0 ELSE Top
      [] e.op \in {"fill", "fill_with", "fill_spare", "fill_spare_with", "extend", "extend_from_slice",
                   "clone_from"} -> Top
      [] e.op = "v_drop" -> IF HasView(S, e.v) /\ S.views[e.v].kind = "drain"
                            THEN Len(S.views[e.v].pre) - S.views[e.v].b ELSE 2
      [] OTHER -> 2

OkFail(S, e) ==
    LET op == e.op  seq == BufSeq(S, e.h)  home == Home(e.op) IN
    IF op \in MutOps \cup ReadOps \cup {"drop_buf"} /\ ~HasBuf(S, e.h) THEN {Lab("TOOL", "unknown_buffer")}
    ELSE
       Chk(~DocPanic(S, e), "C11", "missing_panic")
  \cup (IF op \in MutOps \cup ReadOps \cup CtorOps
        THEN    Chk(~e.post.obs \/ MatchSeq(e, ExpSeq(S, e), e.post.seq), home, "contents")
           \cup Chk(ExpRetOK(S, e), home, "return_value")
           \cup Chk(Len(GenSeq(e)) = ExpGens(S, e) \/ op \notin {"fill_with", "fill_spare_with", "extend", "from_iter"},
                    home, "callback_count")
           \cup PostFail(S, e, home)
           \cup Chk(~e.post.obs \/ \A i \in DOMAIN e.post.seq : e.post.vals[i] = NewVal(S, e, e.post.seq[i]), home, "payload")
        ELSE {})
  \cup \* conservation: what the call owned is afterwards in exactly one place
       (IF op \in MutOps \cup CtorOps \cup {"drop_buf", "caller_drop", "to_vec", "clone", "into_iter"} \cup ReadOps
        THEN    Chk((Owned(S, e) \ Kept(S, e)) \ {id \in DOMAIN S.limbo : S.limbo[id].why # "user" \/ op # "drop_buf"} \subseteq DropIds(e),
                    FaultTag(S, e), "leak")
           \cup Chk(DropIds(e) \cap Kept(S, e) = {}, FaultTag(S, e), "dropped_but_still_present")
        ELSE {})
  \cup Chk(Moved(S, e) <= MoveBound(S, e), "C20", "relocated_too_many")
  \cup \* not a property: the scenario's prelude aimed for a physical layout; if the implementation places
       \* elements differently the run is still valid, but the layout coverage is not what the model intended
       Chk(op # "expect_layout" \/ ~e.post.obs \/ e.post.len <= 0 \/ e.post.slots[1] = e.i, "DRIFT", "layout_not_reached")
  \cup (IF op = "clone" /\ e.post2.obs
        THEN    Chk(MatchSeq(e, Clones(seq), e.post2.seq), "C12", "clone_contents")
           \cup Chk(e.post2.len = Len(e.post2.seq) /\ e.post2.cap = BufCap(S, e.h) /\ Distinct(e.post2.seq)
                    /\ e.post2.empty = (e.post2.len = 0) /\ e.post2.full = (e.post2.len = e.post2.cap), "C12", "clone_len_flags")
           \cup Chk(\A i \in DOMAIN e.post2.seq : e.post2.vals[i] = NewVal(S, e, e.post2.seq[i]), "C12", "clone_payload")
        ELSE IF e.h2 >= 0 /\ e.post2.obs /\ op # "clone"
        THEN Chk(e.post2.seq = BufSeq(S, e.h2), home, "source_changed")
        ELSE {})

(***************************************************************************)
(* A call that unwound without an injected fault: only where documented,   *)
(* and then nothing changed.                                               *)
(***************************************************************************)
PanicFail(S, e) ==
       Chk(DocPanic(S, e), "C11", "unexpected_panic")
  \cup Chk(DocPanic(S, e), HomeE(S, e), "unexpected_panic")
  \cup Chk(~e.post.obs \/ e.post.seq = BufSeq(S, e.h), "C11", "panic_changed_contents")
  \cup Chk(DropIds(e) = {} /\ Created(e) = {}, "C11", "panic_ran_user_code")
  \cup PostFail(S, e, "C11")

(***************************************************************************)
(* A call in which the armed fault fired (C05: destructor, C06: clone /    *)
(* closure / iterator / comparison).  The contents afterwards are any      *)
(* valid sequence of live, distinct elements the call owned; what is       *)
(* unaccounted for goes to limbo and is judged when its buffer is dropped. *)
(***************************************************************************)
Unaccounted(S, e) == {id \in Owned(S, e) : id \notin Kept(S, e) /\ Nd(S, id) + DropCnt(e, id) = 0}

FaultFail(S, e) ==
    LET tag == FaultTag(S, e)  ps == PostSeqOf(S, e) IN
       Chk(e.unw, tag, "fault_swallowed")
  \cup PostFail(S, e, tag)
  \cup Chk(\A id \in Range(ps) : Nd(S, id) + DropCnt(e, id) = 0, tag, "dead_element_in_buffer")
  \cup Chk(Range(ps) \subseteq Range(BufSeq(S, e.h)) \cup Owned(S, e), tag, "foreign_element_in_buffer")
  \cup Chk(~e.post.obs \/ \A i \in DOMAIN e.post.seq : e.post.vals[i] = NewVal(S, e, e.post.seq[i]), tag, "payload")
  \cup \* user-code panics must not leak: with no buffer left to hold them, nothing may be unaccounted
       Chk(FaultKind(e) = "drop" \/ e.op \notin CtorOps \cup {"clone", "to_vec", "drop_buf", "caller_drop"}
           \/ Unaccounted(S, e) = {}, IF e.op \in CtorOps \cup {"clone", "to_vec"} THEN "C06,C12" ELSE "C06", "leak")

(***************************************************************************)
(* Views (iterators, drains).                                              *)
(***************************************************************************)
ViewNewFail(S, e) ==
    LET seq == BufSeq(S, e.h)  n == Len(seq)
        a == IF e.op \in {"iter", "iter_mut"} THEN 0 ELSE BStart(e.bs)
        b == IF e.op \in {"iter", "iter_mut"} THEN n ELSE BEnd(e.be, n) IN
       Chk(HasBuf(S, e.h), "TOOL", "unknown_buffer")
  \cup Chk(~DocPanic(S, e), "C11", "missing_panic")
  \cup Chk(e.ret.k = "n" /\ e.ret.n = b - a, IF e.op = "drain" THEN "C09" ELSE "C08", "initial_len")
  \cup PostFail(S, e, "C08")
  \cup Chk(~e.post.obs \/ e.post.seq = seq, "C08", "view_creation_changed_contents")

SlotOfId(S, h, id) == IF HasBuf(S, h) /\ id \in Range(S.bufs[h].seq) THEN SlotIn(S.bufs[h].seq, S.bufs[h].slot, id) ELSE -1

ViewFail(S, e) ==
    IF ~HasView(S, e.v) THEN {Lab("TOOL", "unknown_view")}
    ELSE
    LET vw == S.views[e.v]  w == vw.win  vh == ViewHome(vw.kind)  op == e.op
        borrows == vw.kind \in {"iter", "iter_mut"} IN
    CASE op = "v_next" ->
             Chk(IF w = <<>> THEN RetNone(e) ELSE RetSome(e, w[1]), vh, "next")
        \cup Chk(w = <<>> \/ ~borrows \/ e.ret.k # "some" \/ e.ret.slots = <<SlotOfId(S, vw.h, w[1])>>, "C07,C08", "address")
      [] op = "v_next_back" ->
             Chk(IF w = <<>> THEN RetNone(e) ELSE RetSome(e, w[Len(w)]), vh, "next_back")
        \cup Chk(w = <<>> \/ ~borrows \/ e.ret.k # "some" \/ e.ret.slots = <<SlotOfId(S, vw.h, w[Len(w)])>>, "C07,C08", "address")
      [] op = "v_nth" ->
             Chk(IF e.i >= Len(w) THEN RetNone(e) ELSE RetSome(e, w[e.i + 1]), vh, "nth")
        \cup \* an owning view destroys what nth() skips
             Chk(borrows \/ DropIds(e) = Range(SubSeq(w, 1, Min(e.i, Len(w)))), IF vw.kind = "drain" THEN "C03,C09" ELSE "C03,C08", "nth_skipped_elements")
      [] op = "v_nth_back" ->
             Chk(IF e.i >= Len(w) THEN RetNone(e) ELSE RetSome(e, w[Len(w) - e.i]), vh, "nth_back")
        \cup Chk(borrows \/ DropIds(e) = Range(SubSeq(w, Max(Len(w) - e.i, 0) + 1, Len(w))), IF vw.kind = "drain" THEN "C03,C09" ELSE "C03,C08", "nth_skipped_elements")
      [] op \in {"v_len", "v_size_hint"} ->
             Chk(e.ret.k = "n" /\ e.ret.n = Len(w) /\ e.ret.ids2 = <<Len(w), Len(w)>>, vh, "len")
      [] op = "v_rest" ->      \* e.acc: a provided method taking the iterator by value (fold, rfold, for_each, collect, rev().collect, count, last)
             CASE e.acc = "count" ->
                     Chk(e.ret.k = "n" /\ e.ret.n = Len(w), vh, "count")
                \cup Chk(borrows \/ DropIds(e) = Range(w), IF vw.kind = "drain" THEN "C03,C09" ELSE "C03,C08", "count_skipped_elements")
               [] e.acc = "last" ->
                     Chk(IF w = <<>> THEN RetNone(e) ELSE RetSome(e, w[Len(w)]), vh, "last")
                \cup Chk(borrows \/ DropIds(e) = Range(Take(w, Max(Len(w) - 1, 0))), IF vw.kind = "drain" THEN "C03,C09" ELSE "C03,C08", "last_skipped_elements")
                \cup Chk(w = <<>> \/ ~borrows \/ e.ret.k # "some" \/ e.ret.slots = <<SlotOfId(S, vw.h, w[Len(w)])>>, "C07,C08", "address")
               [] OTHER ->
                     Chk(e.ret.k = "ids" /\ e.ret.ids = (IF e.i = 1 THEN Rev(w) ELSE w), vh, "rest")
                \cup Chk(e.acc = "" \/ ~borrows \/ e.ret.k # "ids" \/ Len(e.ret.slots) # Len(w) \/
                         \A j \in 1..Len(w) : e.ret.slots[j] = SlotOfId(S, vw.h, (IF e.i = 1 THEN Rev(w) ELSE w)[j]), "C07,C08", "address")
      [] op = "v_clone" ->
             Chk(e.ret.k = "n" /\ e.ret.n = Len(w), vh, "clone_len")
      [] op = "v_debug" ->      \* Debug of a view lists exactly the elements it has not produced yet
             Chk(e.ret.k = "str" /\ e.ret.b /\ e.ret.ids2 = Vals(S, w), vh, "debug")
      [] op = "v_drop" ->
             (IF vw.kind = "drain"
              THEN    Chk(~e.post.obs \/ e.post.seq = Take(vw.pre, vw.a) \o DropN(vw.pre, vw.b), "C01,C09", "contents_after_drain")
                 \cup PostFail(S, e, "C09")
                 \cup Chk(~e.post.obs \/ \A i \in DOMAIN e.post.seq : e.post.vals[i] = Val(S, e.post.seq[i]), "C09", "payload")
                 \cup Chk(Moved(S, e) <= MoveBound(S, e), "C20", "relocated_too_many")
              ELSE {})
        \cup Chk(ViewOwned(S, e.v) \subseteq DropIds(e), IF vw.kind = "drain" THEN "C03,C09" ELSE "C03", "leak")
        \cup \* exactly the elements not handed out are destroyed: never one the caller already received
             Chk(DropIds(e) \subseteq ViewOwned(S, e.v), IF vw.kind = "drain" THEN "C03,C09" ELSE "C03,C08", "destroyed_element_outside_window")
      [] OTHER -> {}

\* leaking a drain (C10)
ForgetFail(S, e) ==
    IF ~HasView(S, e.v) THEN {Lab("TOOL", "unknown_view")}
    ELSE LET vw == S.views[e.v] IN
    IF vw.kind # "drain" THEN {}
    ELSE    PostFail(S, e, "C10")
       \cup Chk(~e.post.obs \/ Range(e.post.seq) \subseteq Range(vw.pre), "C10", "foreign_element_after_forget")
       \cup Chk(~e.post.obs \/ \A id \in Range(e.post.seq) : Nd(S, id) = 0 /\ id \notin S.held, "C10", "handed_out_element_still_in_buffer")
       \cup Chk(~e.post.obs \/ \A i \in DOMAIN e.post.seq : e.post.vals[i] = Val(S, e.post.seq[i]), "C10", "payload")

(***************************************************************************)
(* Observers: every accessor presents the same sequence (C07).             *)
(***************************************************************************)
ObserveFail(S, e) ==
    LET seq == BufSeq(S, e.h)  n == Len(seq)
        slots == IF HasBuf(S, e.h) THEN S.bufs[e.h].slot ELSE <<>>
        \* positions probed by the harness: 0 .. n+1 and usize::MAX
        npos == n + 3
        At(i) == IF i <= n THEN seq[i] ELSE 0
        AtS(i) == IF i <= n THEN slots[i] ELSE -1
        Fwd == [k \in 1..npos |-> IF k <= n THEN seq[k] ELSE 0]
        FwdS == [k \in 1..npos |-> IF k <= n THEN slots[k] ELSE -1]
        Bwd == [k \in 1..npos |-> IF k <= n THEN seq[n + 1 - k] ELSE 0]
        BwdS == [k \in 1..npos |-> IF k <= n THEN slots[n + 1 - k] ELSE -1]
        Idx == [k \in 1..npos |-> IF k <= n THEN seq[k] ELSE -2]
        One(i) == IF n = 0 THEN <<>> ELSE <<seq[i]>>
        OneS(i) == IF n = 0 THEN <<>> ELSE <<slots[i]>>
        RowOK(r) ==
            CASE r.acc \in {"get", "nth_front", "get_mut", "nth_front_mut"} -> r.ids = Fwd /\ r.slots = FwdS
              [] r.acc \in {"nth_back", "nth_back_mut"} -> r.ids = Bwd /\ r.slots = BwdS
              [] r.acc \in {"index", "index_mut"} -> r.ids = Idx /\ r.slots = FwdS
              [] r.acc \in {"front", "front_mut"} -> r.ids = One(1) /\ r.slots = OneS(1)
              [] r.acc \in {"back", "back_mut"} -> r.ids = One(n) /\ r.slots = OneS(n)
              [] r.acc \in {"iter_rev", "iter_mut_rev"} -> r.ids = Rev(seq) /\ r.slots = Rev(slots)
              [] OTHER -> r.ids = seq /\ r.slots = slots
    IN  UNION { Chk(RowOK(e.rows[r]), IF \E x \in Range(e.rows[r].ids) : x = -2 /\ e.rows[r].acc \notin {"index", "index_mut"}
                                      THEN "C07,C11" ELSE "C07", e.rows[r].acc) : r \in DOMAIN e.rows }

AccessFail(S, e) ==
    \* a reference returned by an accessor points at the element's own slot
    IF e.op \in GetOps \cup {"write_via"} /\ e.ret.k = "some" /\ Len(e.ret.slots) = 1
    THEN Chk(e.ret.slots[1] = (IF e.post.obs /\ e.ret.ids[1] \in Range(e.post.seq)
                               THEN SlotIn(e.post.seq, e.post.slots, e.ret.ids[1]) ELSE SlotOfId(S, e.h, e.ret.ids[1])), "C07", "address")
    ELSE IF e.op \in {"as_slices", "as_mut_slices", "make_contiguous"} /\ e.ret.k \in {"slices", "ids"} /\ e.post.obs
    THEN Chk(e.ret.slots = e.post.slots, "C07", "address")
      \cup Chk(e.op # "make_contiguous" \/ e.post.split = e.post.len, "C07", "not_contiguous_after_make_contiguous")
    ELSE {}

WriteViaFail(S, e) ==
    LET seq == BufSeq(S, e.h)  n == Len(seq)
        a == IF e.acc = "range_mut" THEN BStart(e.bs) ELSE 0
        b == IF e.acc = "range_mut" THEN BEnd(e.be, n) ELSE n
        sel == IF a <= b /\ b <= n THEN SubSeq(seq, a + 1, b) ELSE <<>>
        m == Len(sel)
        target == CASE e.acc \in {"nth_back_mut", "iter_mut_rev"} -> IF e.i < m THEN sel[m - e.i] ELSE 0
                    [] e.acc = "front_mut" -> IF m > 0 THEN sel[1] ELSE 0
                    [] e.acc = "back_mut" -> IF m > 0 THEN sel[m] ELSE 0
                    [] OTHER -> IF e.i < m THEN sel[e.i + 1] ELSE 0
    IN Chk(IF target = 0 THEN RetNone(e) ELSE RetSome(e, target), "C07", "write_target")

(***************************************************************************)
(* Comparison, ordering, hashing, formatting (C13).                        *)
(***************************************************************************)
LexLess(a, b) ==   \* a < b lexicographically (sequences of integers)
    \E k \in 0..Min(Len(a), Len(b)) :
        /\ \A i \in 1..k : a[i] = b[i]
        /\ \/ k = Len(a) /\ k < Len(b)
           \/ k < Len(a) /\ k < Len(b) /\ a[k+1] < b[k+1]
OrdOf(a, b) == IF a = b THEN 0 ELSE IF LexLess(a, b) THEN -1 ELSE 1

CompareFail(S, e) ==
    LET va == Vals(S, BufSeq(S, e.h))
        vb == IF e.op = "eq_slice" THEN e.vals ELSE Vals(S, BufSeq(S, e.h2))
        o == OrdOf(va, vb) IN
    CASE e.op \in {"eq", "eq_slice"} -> Chk(e.ret.k = "bool" /\ e.ret.b = (va = vb), "C13", "eq")
      [] e.op = "ne" -> Chk(e.ret.k = "bool" /\ e.ret.b = (va # vb), "C13", "ne")
      [] e.op = "lt" -> Chk(e.ret.k = "bool" /\ e.ret.b = (o < 0), "C13", "lt")
      [] e.op = "le" -> Chk(e.ret.k = "bool" /\ e.ret.b = (o <= 0), "C13", "le")
      [] e.op = "gt" -> Chk(e.ret.k = "bool" /\ e.ret.b = (o > 0), "C13", "gt")
      [] e.op = "ge" -> Chk(e.ret.k = "bool" /\ e.ret.b = (o >= 0), "C13", "ge")
      [] e.op \in {"partial_cmp", "cmp"} -> Chk(e.ret.k = "ord" /\ e.ret.n = o, "C13", "ordering")
      [] e.op = "hash" -> Chk(e.ret.k = "str" /\ (e.h2 < 0 \/ va # vb \/ BufCap(S, e.h) # BufCap(S, e.h2) \/ e.ret.s = e.ret.s2), "C13", "hash")
      [] e.op = "debug" -> Chk(e.ret.k = "str" /\ e.ret.s = e.ret.s2, "C13", "debug")
      [] OTHER -> {}

(***************************************************************************)
(* Byte-stream I/O on byte buffers (C14), through std::io or the           *)
(* embedded-io / embedded-io-async traits (C16; e.acc names the family).   *)
(* Elements are plain bytes: no identity, no ledger.                       *)
(***************************************************************************)
IsPrefix(p, s) == Len(p) <= Len(s) /\ p = SubSeq(s, 1, Len(p))
IoProps(e) == IF e.acc = "std" \/ e.acc = "" THEN "C14" ELSE "C16"
ByteFail(S, e) ==
    LET seq == BufSeq(S, e.h)  cap == CapOf(S, e)  n == Len(seq)  pr == IoProps(e)  ps == e.post.seq IN
    IF e.op = "new" THEN PostFail(S, e, pr) \cup Chk(ps = <<>>, pr, "new_not_empty")
    ELSE IF e.op = "poison" THEN Chk(ps = seq, pr, "contents")
    ELSE
         Chk(~e.unw, "C11", "unexpected_panic") \cup Chk(~e.unw, pr, "unexpected_panic")
    \cup Chk((e.ret.k # "err" \/ (e.op = "read_to_string" /\ e.i = 0)) /\ (e.ret.k # "eof" \/ e.op = "read_exact"), pr, "io_error")
    \cup Chk(~e.ret.b, "C16", "future_pending")
    \cup PostFail(S, e, pr)
    \cup (IF e.unw THEN {} ELSE
          CASE e.op = "write" ->
                  Chk(e.ret.k = "n" /\ e.ret.n = Len(e.vals), pr, "write_count")
             \cup Chk(ps = LastN(seq \o e.vals, cap), pr, "contents")
            [] e.op = "flush" -> Chk(e.ret.k = "ok", pr, "flush") \cup Chk(ps = seq, pr, "contents")
            [] e.op = "extend_ref" -> Chk(ps = LastN(seq \o e.vals, cap), "C01", "contents")
            [] e.op = "write_all" -> Chk(e.ret.k = "ok", pr, "write_all") \cup Chk(ps = LastN(seq \o e.vals, cap), pr, "contents")
            [] e.op = "read_exact" ->      \* fills the destination or reports end-of-input (then what was consumed is unspecified)
                  IF e.i <= n
                  THEN    Chk(e.ret.k = "ok" /\ e.ret.ids = Take(seq, e.i), pr, "read_exact")
                     \cup Chk(ps = DropN(seq, e.i), pr, "contents")
                  ELSE    Chk(e.ret.k = "eof", pr, "read_exact")
                     \cup Chk(Len(ps) <= n /\ ps = LastN(seq, Len(ps)), pr, "contents")
            [] e.op = "read" ->
                  LET k == Min(e.i, n) IN
                  Chk(e.ret.k = "n" /\ e.ret.n = k, pr, "read_count")
             \cup Chk(e.ret.ids = Take(seq, k), pr, "read_bytes")
             \cup Chk(\A j \in DOMAIN e.ret.ids2 : e.ret.ids2[j] = 238, pr, "read_wrote_past_count")
             \cup Chk(ps = DropN(seq, k), pr, "contents")
            [] e.op = "fill_buf" ->
                  Chk(e.ret.k = "ids" /\ IsPrefix(e.ret.ids, seq) /\ (n > 0 => Len(e.ret.ids) > 0), pr, "fill_buf")
             \cup Chk(~e.post.obs \/ e.ret.k # "ids" \/ IsPrefix(e.ret.slots, e.post.slots), pr, "fill_buf_address")
             \cup Chk(ps = seq, pr, "contents")
            [] e.op = "consume" -> Chk(e.ret.k = "unit", pr, "consume") \cup Chk(ps = DropN(seq, Min(e.i, n)), pr, "contents")
            \* observers on a primitive element type: what a Hasher is fed (write() call by write() call) is a function
            \* of the logical contents (e.ret.s2: the same for a fresh buffer holding the same bytes); such a buffer is
            \* equal in every way (==, !=, cmp, partial_cmp, Debug, clone())
            [] e.op = "hash" ->
                  Chk(e.ret.k = "str" /\ e.ret.s = e.ret.s2, "C04,C13", "hash_depends_on_layout")
             \cup Chk(e.ret.n = 1, "C04,C13", "equal_contents_compare_unequal")
             \cup Chk(ps = seq, "C13", "contents")
            \* provided methods of std::io::Read / BufRead / Write (a crate may override them)
            [] e.op = "read_to_end" ->
                  Chk(e.ret.k = "n" /\ e.ret.n = n /\ e.ret.ids = seq, pr, "read_to_end") \cup Chk(ps = <<>>, pr, "contents")
            [] e.op = "read_to_string" ->       \* e.i = 1: the contents are valid UTF-8 (decided by the harness with core::str)
                  IF e.i = 1
                  THEN Chk(e.ret.k = "n" /\ e.ret.n = n /\ e.ret.ids = seq, pr, "read_to_string") \cup Chk(ps = <<>>, pr, "contents")
                  ELSE Chk(e.ret.k = "err" /\ e.ret.s = "InvalidData" /\ e.ret.ids = <<>>, pr, "read_to_string_invalid_utf8")
                  \cup Chk(Len(ps) <= n /\ ps = LastN(seq, Len(ps)), pr, "contents")
            [] e.op = "read_until" ->           \* up to and including the first delimiter e.i, or everything
                  LET hits == {j \in 1..n : seq[j] = e.i}
                      k == IF hits = {} THEN n ELSE CHOOSE j \in hits : \A j2 \in hits : j <= j2 IN
                  Chk(e.ret.k = "n" /\ e.ret.n = k /\ e.ret.ids = Take(seq, k), pr, "read_until") \cup Chk(ps = DropN(seq, k), pr, "contents")
            [] e.op = "read_vectored" ->        \* any positive amount that fits, into the buffers in order
                  LET total == e.vals[1] + e.vals[2]  k == e.ret.n IN
                  Chk(e.ret.k = "n" /\ k <= Min(total, n) /\ (total > 0 /\ n > 0 => k > 0), pr, "read_count")
             \cup Chk(k > n \/ e.ret.ids = Take(seq, k), pr, "read_bytes")
             \cup Chk(\A j \in DOMAIN e.ret.ids2 : e.ret.ids2[j] = 238, pr, "read_wrote_past_count")
             \cup Chk(k > n \/ ps = DropN(seq, k), pr, "contents")
            [] e.op = "write_vectored" ->       \* any positive prefix of the concatenation
                  LET k == e.ret.n IN
                  Chk(e.ret.k = "n" /\ k <= Len(e.vals) /\ (Len(e.vals) > 0 => k > 0), pr, "write_count")
             \cup Chk(k > Len(e.vals) \/ ps = LastN(seq \o Take(e.vals, k), cap), pr, "contents")
            [] e.op = "write_fmt" -> Chk(e.ret.k = "ok", pr, "write_fmt") \cup Chk(ps = LastN(seq \o e.vals, cap), pr, "contents")
            [] OTHER -> {})

(***************************************************************************)
(* Zero-sized elements at extreme capacities (C19).  Elements have no      *)
(* identity; the trace carries lengths, flags, result kinds and the        *)
(* created / destroyed counters (e.ret.ids2 = <<created, destroyed, held   *)
(* by the caller>>).  The same sequence semantics, stated on lengths.      *)
(***************************************************************************)
Dummy(k) == [x \in 1..k |-> x]
ZExpLen(S, e) ==
    LET n == Len(BufSeq(S, e.h))  cap == CapOf(S, e) IN
    CASE e.op \in PushOps -> IF n < cap THEN n + 1 ELSE n
      [] e.op \in {"pop_back", "pop_front"} -> Max(n - 1, 0)
      [] e.op \in {"remove", "swap_remove_back", "swap_remove_front"} -> IF e.i < n THEN n - 1 ELSE n
      [] e.op \in {"truncate_back", "truncate_front"} -> Min(n, e.i)
      [] e.op = "clear" -> 0
      [] e.op \in {"extend", "extend_from_slice"} -> Min(n + e.i, cap)
      [] OTHER -> n
ZExpRet(S, e) ==       \* the kind of the result
    LET n == Len(BufSeq(S, e.h))  cap == CapOf(S, e) IN
    CASE e.op \in {"push_back", "push_front"} -> IF cap = 0 \/ n = cap THEN "some" ELSE "none"
      [] e.op \in {"try_push_back", "try_push_front"} -> IF n < cap THEN "ok" ELSE "err"
      [] e.op \in {"pop_back", "pop_front", "front", "back", "front_mut", "back_mut"} -> IF n = 0 THEN "none" ELSE "some"
      [] e.op \in {"remove", "swap_remove_back", "swap_remove_front", "get", "get_mut", "nth_front", "nth_front_mut",
                   "nth_back", "nth_back_mut", "index", "index_mut"} -> IF e.i < n THEN "some" ELSE "none"
      [] e.op \in {"as_slices", "as_mut_slices"} -> "slices"
      [] e.op \in {"make_contiguous", "drain", "range", "iter", "range_mut", "iter_mut", "v_len"} -> "n"
      [] e.op \in {"v_next", "v_next_back"} -> IF HasView(S, e.v) /\ S.views[e.v].win # <<>> THEN "some" ELSE "none"
      [] OTHER -> "unit"
ZFail(S, e) ==
    LET n == Len(BufSeq(S, e.h))  cap == CapOf(S, e)
        drainAlive == \E v \in DOMAIN S.views : S.views[v].kind = "drain" /\ e.op # "v_drop" IN
    IF e.op = "new" THEN Chk(e.post.len = 0 /\ e.post.empty, "C19", "new_not_empty")
    ELSE IF e.op = "caller_drop" THEN {}
    ELSE
       Chk(e.unw = DocPanic(S, e), "C19", IF e.unw THEN "unexpected_panic" ELSE "missing_panic")
  \cup Chk(~e.post.obs \/ e.post.len >= 0, "C19", "observation_panicked")
  \cup (IF e.unw \/ ~e.post.obs THEN {} ELSE
           Chk(e.post.len = (IF e.op = "v_drop" /\ HasView(S, e.v) /\ S.views[e.v].kind = "drain"
                             THEN Len(S.views[e.v].pre) - (S.views[e.v].b - S.views[e.v].a) ELSE ZExpLen(S, e)), "C19", "length")
      \cup Chk(e.post.empty = (e.post.len = 0) /\ e.post.full = (e.post.len = cap) /\ e.post.cap = cap, "C19", "len_flags")
      \cup Chk(e.post.seq = <<e.post.len>> /\ e.post.split <= e.post.len, "C19", "slices_do_not_add_up"))
  \cup (IF e.unw THEN {} ELSE
           Chk(e.ret.k = ZExpRet(S, e), "C19", "return_value")
      \cup Chk(e.ret.k # "slices" \/ (e.ret.n = n /\ e.ret.slots[1] + e.ret.slots[2] = n), "C19", "slices_do_not_add_up")
      \cup Chk(e.op # "make_contiguous" \/ e.ret.n = n, "C19", "make_contiguous_len")
      \cup Chk(e.op \notin {"drain", "range", "range_mut"} \/ e.ret.n = BEnd(e.be, n) - BStart(e.bs), "C19", "initial_len")
      \cup Chk(e.op \notin {"iter", "iter_mut"} \/ e.ret.n = n, "C19", "initial_len")
      \cup Chk(e.op # "v_len" \/ ~HasView(S, e.v) \/ e.ret.n = Len(S.views[e.v].win), "C19", "len"))
  \cup \* the number of destructor runs follows the sequence semantics: everything created is in the buffer,
       \* with the caller, or destroyed
       Chk(drainAlive \/ ~e.post.obs \/ e.post.len < 0 \/ e.ret.ids2[1] - e.ret.ids2[2] = e.post.len + e.ret.ids2[3], "C19", "destructor_runs")
ZNext(S, e) ==
    LET n == Len(BufSeq(S, e.h))
        a == IF e.op \in {"iter", "iter_mut"} THEN 0 ELSE BStart(e.bs)
        b == IF e.op \in {"iter", "iter_mut"} THEN n ELSE BEnd(e.be, n)
        b1 == IF e.op = "drop_buf" THEN Del(S.bufs, e.h)
              ELSE IF e.post.obs /\ e.post.len >= 0
                   THEN Upd(S.bufs, e.h, [cap |-> CapOf(S, e), seq |-> Dummy(e.post.len), slot |-> <<>>, split |-> e.post.split, lock |-> -1])
                   ELSE S.bufs
        v1 == IF e.unw THEN (IF e.op = "v_drop" THEN Del(S.views, e.v) ELSE S.views)
              ELSE IF e.op \in {"drain", "range", "iter", "range_mut", "iter_mut"}
              THEN Upd(S.views, e.v, [kind |-> IF e.op = "drain" THEN "drain" ELSE "iter", h |-> e.h, win |-> Dummy(b - a),
                                      pre |-> BufSeq(S, e.h), a |-> a, b |-> b])
              ELSE IF e.op \in {"v_next", "v_next_back"} /\ HasView(S, e.v) THEN [S.views EXCEPT ![e.v].win = DropN(@, 1)]
              ELSE IF e.op = "v_drop" THEN Del(S.views, e.v)
              ELSE S.views
    IN [S EXCEPT !.bufs = b1, !.views = v1]

(***************************************************************************)
(* End of a scenario: the harness has released everything; every element   *)
(* ever created has been destroyed exactly once, except permitted leaks.   *)
(***************************************************************************)
\* C06: what a user-code panic left unaccounted for must have been destroyed by now
LimboFail(S) == Chk(\A id \in DOMAIN S.limbo : S.limbo[id].why # "user" \/ Nd(S, id) >= 1, "C06", "leak")

EndFail(S) ==
       Chk(\A id \in DOMAIN S.nd : S.nd[id] >= 1 \/ id \in DOMAIN S.limbo,
           CASE S.taint = "drop" -> "C05" [] S.taint = "user" -> "C06" [] S.taint = "forget" -> "C10" [] OTHER -> "C03",
           "leak_at_end")
  \cup LimboFail(S)

(***************************************************************************)
(* All clauses.                                                            *)
(***************************************************************************)
Fail(S, e) ==
    IF e.e = "begin" THEN {}
    ELSE IF e.e = "end" /\ e.ty = "z" THEN Chk(e.ret.ids2[1] = e.ret.ids2[2], "C19", "destructor_runs_at_end")
    ELSE IF e.e = "end" THEN EndFail(S)
    ELSE IF e.ty = "b" THEN GenericFail(S, e) \cup ByteFail(S, e)
    ELSE IF e.ty = "z" THEN Chk(e.allocs <= 0, "C17", "allocation") \cup ZFail(S, e)
    ELSE GenericFail(S, e) \cup
         (IF e.inj THEN FaultFail(S, e)
          ELSE IF e.unw THEN PanicFail(S, e)
          ELSE IF e.op \in ViewNew THEN ViewNewFail(S, e)
          ELSE IF e.op = "v_forget" THEN ForgetFail(S, e)
          ELSE IF e.op \in ViewOps THEN ViewFail(S, e)
          ELSE OkFail(S, e) \cup
               (IF e.op = "observe" THEN ObserveFail(S, e) ELSE {}) \cup
               AccessFail(S, e) \cup
               (IF e.op = "write_via" THEN WriteViaFail(S, e) ELSE {}) \cup
               CompareFail(S, e))

(***************************************************************************)
(* The abstract state after the call.  Contents are re-synchronised to     *)
(* what was observed, so that one violation does not hide the next.        *)
(***************************************************************************)
NewIds(S, e) == ((IF e.op \in ByValArg \cup ByRefArg THEN Range(e.ids) ELSE {}) \cup Created(e)) \ DOMAIN S.nd

BufRec(cap, p, lock) == [cap |-> cap, seq |-> p.seq, slot |-> p.slots, split |-> p.split, lock |-> lock]

Next(S, e) ==
    IF e.e = "begin" \/ e.e = "end" THEN InitS
    ELSE IF e.ty = "z" THEN ZNext(S, e)
    ELSE
    LET new == NewIds(S, e)
        nd1 == [id \in DOMAIN S.nd \cup new \cup DropIds(e) |-> Nd(S, id) + DropCnt(e, id)]
        val1 == [id \in DOMAIN S.val \cup new |-> NewVal(S, e, id)]
        val2 == IF e.op = "write_via" /\ e.ret.k = "some" /\ e.ret.ids[1] \in DOMAIN val1
                THEN [val1 EXCEPT ![e.ret.ids[1]] = e.vals[1]] ELSE val1
        \* buffers
        b1 == IF e.op \in {"drop_buf", "into_iter"} THEN Del(S.bufs, e.h)
              ELSE IF e.post.obs /\ e.post.len >= 0
                   THEN Upd(S.bufs, e.h, BufRec(IF HasBuf(S, e.h) THEN BufCap(S, e.h) ELSE e.post.cap, e.post,
                                                IF HasBuf(S, e.h) THEN S.bufs[e.h].lock ELSE -1))
                   ELSE S.bufs
        b2 == IF e.op = "clone" /\ e.post2.obs THEN Upd(b1, e.h2, BufRec(e.post2.cap, e.post2, -1)) ELSE b1
        \* views
        seq == BufSeq(S, e.h)  n == Len(seq)
        a == IF e.op \in {"iter", "iter_mut"} THEN 0 ELSE BStart(e.bs)
        b == IF e.op \in {"iter", "iter_mut"} THEN n ELSE BEnd(e.be, n)
        kind == CASE e.op \in {"iter", "range"} -> "iter" [] e.op \in {"iter_mut", "range_mut"} -> "iter_mut"
                  [] e.op = "drain" -> "drain" [] OTHER -> "into"
        v1 == IF e.unw THEN (IF e.op \in {"v_drop"} THEN Del(S.views, e.v) ELSE S.views)
              ELSE IF e.op \in ViewNew
              THEN Upd(S.views, e.v, [kind |-> kind, h |-> e.h, win |-> SubSeq(seq, a + 1, b), pre |-> seq, a |-> a, b |-> b])
              ELSE IF e.op = "into_iter"
              THEN Upd(S.views, e.v, [kind |-> "into", h |-> -1, win |-> seq, pre |-> seq, a |-> 0, b |-> n])
              ELSE IF e.op \in {"iter_default", "iter_mut_default"}
              THEN Upd(S.views, e.v, [kind |-> "iter", h |-> -1, win |-> <<>>, pre |-> <<>>, a |-> 0, b |-> 0])
              ELSE IF e.op \in {"v_drop", "v_forget"} THEN Del(S.views, e.v)
              ELSE IF e.op \in {"v_next", "v_next_back", "v_nth", "v_nth_back", "v_rest"} /\ HasView(S, e.v)
              THEN [S.views EXCEPT ![e.v].win = WinAfter(S, e)]
              ELSE IF e.op = "v_clone" /\ HasView(S, e.v)
              THEN Upd(S.views, e.v2, IF S.views[e.v].kind = "into"
                                      THEN [S.views[e.v] EXCEPT !.win = [i \in 1..Len(@) |->
                                               IF \E c \in CloneNew(e) : CloneSrc(e, c) = @[i]
                                               THEN CHOOSE c \in CloneNew(e) : CloneSrc(e, c) = @[i] ELSE 0]]
                                      ELSE S.views[e.v])
              ELSE S.views
        held1 == (S.held \cup (IF e.op \in ByRefArg THEN Range(e.ids) ELSE {}) \cup Handed(S, e))
                 \ (IF e.op = "caller_drop" THEN Range(e.ids) ELSE {})
        \* limbo: after an injected fault or a leaked drain, what the call owned and cannot be found any more
        lost == IF e.inj THEN Unaccounted(S, e)
                ELSE IF e.op = "v_forget" /\ HasView(S, e.v)
                THEN {id \in Range(S.views[e.v].pre) \cup ViewOwned(S, e.v) :
                          id \notin Range(PostSeqOf(S, e)) /\ id \notin S.held /\ Nd(S, id) = 0}
                ELSE {}
        why == IF e.inj THEN FaultKind(e) ELSE "forget"
        hb == IF e.op \in ViewOps /\ HasView(S, e.v) THEN S.views[e.v].h ELSE e.h
        limbo1 == [id \in DOMAIN S.limbo \cup lost |-> IF id \in DOMAIN S.limbo THEN S.limbo[id] ELSE [h |-> hb, why |-> why]]
        taint1 == IF e.inj THEN FaultKind(e) ELSE IF e.op = "v_forget" /\ S.taint = "" THEN "forget" ELSE S.taint
    IN [bufs |-> b2, views |-> v1, held |-> held1, nd |-> nd1, val |-> val2, limbo |-> limbo1, taint |-> taint1]

(***************************************************************************)
(* State invariant (C03 "exactly one place"): every element ever created   *)
(* is in exactly one of: one buffer, one owning view, the caller's hands,  *)
(* destroyed, or (after a permitted leak) limbo.                           *)
(***************************************************************************)
Places(S, id) ==
      Cardinality({h \in DOMAIN S.bufs : id \in Range(S.bufs[h].seq)
                     /\ ~\E v \in DOMAIN S.views : S.views[v].kind = "drain" /\ S.views[v].h = h})
    + Cardinality({v \in DOMAIN S.views : S.views[v].kind = "into" /\ id \in Range(S.views[v].win)})
    + Cardinality({v \in DOMAIN S.views : S.views[v].kind = "drain" /\
                      id \in (Range(S.views[v].pre) \ (Range(SubSeq(S.views[v].pre, S.views[v].a + 1, S.views[v].b)) \ Range(S.views[v].win)))})
    + (IF id \in S.held THEN 1 ELSE 0)
    + (IF Nd(S, id) >= 1 THEN 1 ELSE 0)
    + (IF id \in DOMAIN S.limbo /\ Nd(S, id) = 0 THEN 1 ELSE 0)

PartitionFail(S) ==
    Chk(\A id \in DOMAIN S.nd : Places(S, id) = 1 /\ S.nd[id] <= 1,
        CASE S.taint = "drop" -> "C05" [] S.taint = "user" -> "C06" [] S.taint = "forget" -> "C10" [] OTHER -> "C03",
        "not_in_exactly_one_place")

=============================================================================
