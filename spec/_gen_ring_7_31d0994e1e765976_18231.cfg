SPECIFICATION Spec
CONSTANTS
  N = 7
  MaxU = 7
  Pinned = FALSE
  Mode = "oneshot"
  MaxCalls = 1
  MaxArg = 2
  MaxScript = 2
  Families = {"single","positional","bulk","access","extend","drain","iter"}
INVARIANTS Refines MechInv OccInv
ACTION_CONSTRAINT EmitScenario
CHECK_DEADLOCK FALSE
