------------------------------- MODULE Borrow -------------------------------
(***************************************************************************)
(* C15 - the borrow contract of the public API, as a machine over CLIENT   *)
(* PROGRAMS.  A program is a short sequence of statements about one buffer *)
(* `b` and up to two views of it:                                          *)
(*     newS(v) / newM(v)   create view v through a method that takes       *)
(*                         &self / &mut self and returns something that    *)
(*                         keeps that borrow (the table ViewMode below);   *)
(*     use(v)              use view v (it is live from its creation to     *)
(*                         its last use - Rust's non-lexical lifetimes);   *)
(*     callS / callM       call a method taking &self / &mut self that     *)
(*                         returns nothing borrowed;                       *)
(*     drop                move the buffer away (drop(b), b.into_iter()).  *)
(* The contract: a view keeps the buffer borrowed, shared or exclusively,  *)
(* for as long as it lives.  So a program is LEGAL iff no statement that   *)
(* needs the buffer exclusively (callM, newM, drop) falls inside the live  *)
(* range of any view, no statement that needs it shared falls inside the   *)
(* live range of an exclusive view, and nothing touches the buffer after   *)
(* it was moved.                                                           *)
(*                                                                         *)
(* TLC enumerates every well-formed program up to MaxLen statements and    *)
(* classifies it.  The generator (lib/vlib/witness.py) instantiates each   *)
(* legal program (must compile) and each program with exactly one conflict *)
(* (must be rejected by the borrow checker) with the concrete methods of   *)
(* the tables below; rustc is the oracle.  If a view stopped holding its   *)
(* borrow (e.g. a raw pointer without the right PhantomData), a reject     *)
(* witness would compile - that is the violation this check reports.       *)
(*                                                                         *)
(* The static facts of C15 that have no transition content (variance,      *)
(* const-ness, auto traits) are the table StaticContract; the generator    *)
(* emits one accept- or reject-witness per row.                            *)
(***************************************************************************)
EXTENDS Integers, Sequences, FiniteSets, TLC, Json

CONSTANT MaxLen

Views == {1, 2}
Stmt == [s : {"newS", "newM", "use"}, v : Views] \cup [s : {"callS", "callM", "drop"}, v : {0}]

\* the methods of the crate, by the borrow they take and keep (the contract table)
ViewMode == [ iter |-> "S", range |-> "S", as_slices |-> "S", get |-> "S", front |-> "S", back |-> "S", nth_front |-> "S",
              nth_back |-> "S", index |-> "S", iter_ref |-> "S",
              iter_mut |-> "M", range_mut |-> "M", drain |-> "M", as_mut_slices |-> "M", make_contiguous |-> "M",
              get_mut |-> "M", front_mut |-> "M", back_mut |-> "M", nth_front_mut |-> "M", nth_back_mut |-> "M",
              index_mut |-> "M", iter_mut_ref |-> "M" ]
CallMode == [ len |-> "S", is_empty |-> "S", is_full |-> "S", capacity |-> "S", to_vec |-> "S", eq |-> "S",
              push_back |-> "M", push_front |-> "M", try_push_back |-> "M", pop_back |-> "M", pop_front |-> "M", remove |-> "M",
              swap |-> "M", truncate_back |-> "M", clear |-> "M", fill |-> "M", extend |-> "M", extend_from_slice |-> "M" ]
MoveOps == {"drop", "into_iter", "move_into_fn"}

\* static facts: [type, fact, holds]
StaticContract ==
    { [ty |-> "CircularBuffer", fact |-> "covariant_in_T", holds |-> TRUE],
      [ty |-> "Iter",           fact |-> "covariant_in_T", holds |-> TRUE],
      [ty |-> "IntoIter",       fact |-> "covariant_in_T", holds |-> TRUE],
      [ty |-> "Drain",          fact |-> "covariant_in_T", holds |-> TRUE],
      [ty |-> "IterMut",        fact |-> "covariant_in_T", holds |-> FALSE],     \* invariant, like &mut [T]
      [ty |-> "Drain",          fact |-> "element_lifetime_can_be_lengthened", holds |-> FALSE],
      [ty |-> "Iter",           fact |-> "element_lifetime_can_be_lengthened", holds |-> FALSE],
      [ty |-> "Drain",          fact |-> "can_outlive_buffer", holds |-> FALSE],
      [ty |-> "Iter",           fact |-> "can_outlive_buffer", holds |-> FALSE],
      [ty |-> "CircularBuffer", fact |-> "new_is_const", holds |-> TRUE],
      [ty |-> "Iter",           fact |-> "clone_without_T_clone", holds |-> TRUE],
      [ty |-> "CircularBuffer", fact |-> "send_iff_T_send", holds |-> TRUE],
      [ty |-> "CircularBuffer", fact |-> "sync_iff_T_sync", holds |-> TRUE],
      [ty |-> "Iter",           fact |-> "send_iff_T_sync", holds |-> TRUE],
      [ty |-> "Iter",           fact |-> "sync_iff_T_sync", holds |-> TRUE],
      [ty |-> "IterMut",        fact |-> "send_iff_T_send", holds |-> TRUE],
      [ty |-> "IterMut",        fact |-> "sync_iff_T_sync", holds |-> TRUE],
      [ty |-> "IntoIter",       fact |-> "send_iff_T_send", holds |-> TRUE],
      [ty |-> "IntoIter",       fact |-> "sync_iff_T_sync", holds |-> TRUE],
      \* a drain hands out and destroys elements by value and reads them through a shared borrow: whatever
      \* auto traits it has, it must not be sendable for elements that are not, nor shareable for elements that are not
      [ty |-> "Drain",          fact |-> "send_without_T_send", holds |-> FALSE],
      [ty |-> "Drain",          fact |-> "sync_without_T_sync", holds |-> FALSE],
      [ty |-> "Drain",          fact |-> "send_without_T_sync", holds |-> FALSE] }

VARIABLE prog

Pos(p) == 1..Len(p)
\* well-formed: a slot is created at most once, a view is used only after its creation
WellFormed(p) ==
    /\ \A x, y \in Pos(p) : (x # y /\ p[x].s \in {"newS", "newM"} /\ p[y].s \in {"newS", "newM"}) => p[x].v # p[y].v
    /\ \A x \in Pos(p) : p[x].s = "use" => \E y \in 1..(x - 1) : p[y].s \in {"newS", "newM"} /\ p[y].v = p[x].v
    /\ \A x \in Pos(p) : p[x].s \in {"newS", "newM"} /\ p[x].v = 2 => \E y \in 1..(x - 1) : p[y].s \in {"newS", "newM"} /\ p[y].v = 1

Born(p, v) == CHOOSE x \in Pos(p) : p[x].s \in {"newS", "newM"} /\ p[x].v = v
HasView(p, v) == \E x \in Pos(p) : p[x].s \in {"newS", "newM"} /\ p[x].v = v
LastUse(p, v) == LET us == {x \in Pos(p) : p[x].s = "use" /\ p[x].v = v} IN
                 IF us = {} THEN Born(p, v) ELSE CHOOSE x \in us : \A y \in us : y <= x
ModeOf(p, v) == IF p[Born(p, v)].s = "newS" THEN "S" ELSE "M"
\* view v is live at statement x: created before it, used at or after it
LiveAt(p, v, x) == HasView(p, v) /\ Born(p, v) < x /\ x <= LastUse(p, v)
NeedsExcl(st) == st.s \in {"newM", "callM", "drop"}
NeedsShared(st) == st.s \in {"newS", "callS"}

\* the conflicts of a program: a statement that is not a use of a view, inside the live range of view v,
\* that needs the buffer exclusively - or needs it at all while v holds it exclusively
Conflicts(p) ==
    { <<x, v>> \in Pos(p) \X Views :
         /\ LiveAt(p, v, x)
         /\ p[x].s # "use"
         /\ (NeedsExcl(p[x]) \/ (NeedsShared(p[x]) /\ ModeOf(p, v) = "M")) }
AfterMove(p) == { x \in Pos(p) : p[x].s # "use" /\ \E y \in 1..(x - 1) : p[y].s = "drop" }
Legal(p) == Conflicts(p) = {} /\ AfterMove(p) = {}
\* exactly one reason to reject, so that the compiler error can be attributed
SingleFault(p) == Cardinality(Conflicts(p)) + Cardinality(AfterMove(p)) = 1

\* model-level theorem (aliasing XOR mutation): in a legal program two views are never live at the same
\* statement unless both are shared, and nothing but its own uses happens while an exclusive view lives
Theorem ==
    Legal(prog) =>
        /\ \A x \in Pos(prog), v, w \in Views :
              (v # w /\ LiveAt(prog, v, x) /\ LiveAt(prog, w, x)) => (ModeOf(prog, v) = "S" /\ ModeOf(prog, w) = "S")
        /\ \A x \in Pos(prog), v \in Views :
              (LiveAt(prog, v, x) /\ ModeOf(prog, v) = "M") => (prog[x].s = "use")

Programs == {p \in UNION {[1..k -> Stmt] : k \in 1..MaxLen} : WellFormed(p)}

Init == prog \in Programs
Next == UNCHANGED prog
Spec == Init /\ [][Next]_prog

Emit == IF Legal(prog) THEN PrintT("PRG " \o ToJson([cls |-> "accept", prog |-> prog]))
        ELSE IF SingleFault(prog) THEN PrintT("PRG " \o ToJson([cls |-> "reject", prog |-> prog]))
        ELSE TRUE
EmitTables == PrintT("TAB " \o ToJson([views |-> ViewMode, calls |-> CallMode, static |-> StaticContract]))
=============================================================================
