------------------------------- MODULE Trace -------------------------------
(***************************************************************************)
(* Trace validation: a trace recorded from the real crate by the harness   *)
(* (one JSON object per call) is checked against the contract, L0.         *)
(*                                                                         *)
(* The specification is a monitor: an event never blocks.  Every contract  *)
(* clause that does not hold for the event is printed (line, scenario,     *)
(* operation, clause labels) and counted; the abstract state is then       *)
(* re-synchronised to what was observed and validation continues, so one   *)
(* violation does not hide the rest of the trace.  The trace is accepted   *)
(* (POSTCONDITION) iff every line was consumed and nothing was counted.    *)
(***************************************************************************)
EXTENDS Contract, Json, IOUtils

Rec == ndJsonDeserialize(IOEnv.TRACE)

VARIABLES l, S
vars == <<l, S>>

Report(e, f) == PrintT("FAIL " \o ToJson([l |-> l, scn |-> e.scn, op |-> e.op, f |-> f])) /\ TLCSet(1, TLCGet(1) + Cardinality(f))

TraceInit == l = 1 /\ S = InitS /\ TLCSet(1, 0) /\ TLCSet(2, 0)

TraceNext ==
    /\ l <= Len(Rec)
    /\ LET e  == Rec[l]
           s2 == Next(S, e)
           f  == Fail(S, e) \cup (IF e.e = "call" THEN PartitionFail(s2) ELSE {})
       IN /\ (IF f = {} THEN TRUE ELSE Report(e, f))
          /\ S' = s2
          /\ l' = l + 1
          /\ TLCSet(2, l)

TraceSpec == TraceInit /\ [][TraceNext]_vars

TraceAccepted ==
    /\ PrintT(<<"CONSUMED", TLCGet(2), Len(Rec), "FAILED-CLAUSES", TLCGet(1)>>)
    /\ TLCGet(2) = Len(Rec)
    /\ TLCGet(1) = 0
=============================================================================
