SPECIFICATION Spec
CONSTANTS
  N = 2
  MaxU = 1073741824
  Pinned = FALSE
  Mode = "oneshot"
  MaxCalls = 1
  MaxArg = 5
  Families = {"single","positional","bulk","fill","extend","access","iter","drain","ctor","faults"}
INVARIANTS Refines MechInv OccInv
ACTION_CONSTRAINT EmitScenario
CHECK_DEADLOCK FALSE
