SPECIFICATION Spec
CONSTANT MaxLen = 4
INVARIANTS Theorem Emit
CHECK_DEADLOCK FALSE
