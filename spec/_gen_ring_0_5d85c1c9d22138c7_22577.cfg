SPECIFICATION Spec
CONSTANTS
  N = 0
  MaxU = 1073741824
  Pinned = FALSE
  Mode = "oneshot"
  MaxCalls = 1
  MaxArg = 1
  MaxScript = 99
  Families = {"conv","faults"}
INVARIANTS Refines MechInv OccInv
ACTION_CONSTRAINT EmitScenario
CHECK_DEADLOCK FALSE
