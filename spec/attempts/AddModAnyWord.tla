--------------------------- MODULE AddModAnyWord ---------------------------
(* add_mod for an ARBITRARY machine word: MaxU is any positive integer.    *)
EXTENDS Integers, TLAPS

WrapSum(a, b, MaxU) == IF a + b > MaxU THEN a + b - (MaxU + 1) ELSE a + b
Inter(a, b, c, MaxU) == WrapSum(a, b, MaxU) + (IF a + b > MaxU THEN (MaxU % c) + 1 ELSE 0)

\* facts about % that the SMT back-ends accept directly
LEMMA ModDef == \A p \in Int, q \in Nat \ {0} : /\ p % q \in 0..(q - 1)
                                                  /\ \E k \in Int : p = k * q + (p % q)
  OBVIOUS

LEMMA ModUnique == \A q \in Nat \ {0}, r \in Int, k \in Int : (r \in 0..(q - 1)) => (k * q + r) % q = r
  OBVIOUS

THEOREM AddModCorrect ==
  ASSUME NEW MaxU \in Nat \ {0}, NEW m \in 1..MaxU, NEW x \in 0..m, NEW y \in 0..m
  PROVE  /\ Inter(x, y, m, MaxU) % m = (x + y) % m
         /\ Inter(x, y, m, MaxU) <= MaxU
         /\ Inter(x, y, m, MaxU) >= 0
<1>1. CASE x + y <= MaxU
  BY <1>1 DEF Inter, WrapSum
<1>2. CASE x + y > MaxU
  <2> DEFINE r == MaxU % m
  <2> DEFINE z == x + y - (MaxU + 1)
  <2>1. r \in 0..(m - 1) /\ \E k \in Int : MaxU = k * m + r
    BY ModDef
  <2>2. Inter(x, y, m, MaxU) = z + r + 1
    BY <1>2 DEF Inter, WrapSum
  <2>3. z >= 0 /\ z <= 2 * m - MaxU - 1
    BY <1>2
  <2>4. z + r + 1 <= MaxU /\ z + r + 1 >= 0
    BY <2>1, <2>3
  <2>5. PICK k \in Int : MaxU = k * m + r
    BY <2>1
  <2>6. x + y = k * m + (z + r + 1)
    BY <2>5
  <2>7. (x + y) % m = (z + r + 1) % m
    BY <2>6, ModDef, ModUnique
  <2> QED BY <2>2, <2>4, <2>7
<1> QED BY <1>1, <1>2
=============================================================================
