------------------------------- MODULE Shape -------------------------------
(***************************************************************************)
(* The scalar skeleton of the mechanism (spec/Ring.tla), for a SYMBOLIC    *)
(* capacity: n, start, size and every argument are arbitrary integers in   *)
(* 0..2^64-1.  Each operation is reduced to                                *)
(*   - its effect on (start, size), and                                    *)
(*   - the machine-arithmetic expressions, slot indices and slice ranges   *)
(*     it evaluates on the way (src/lib.rs, src/drain.rs).                 *)
(* Obligations, decided by Apalache (SMT) as ONE inductive step            *)
(*   apalache-mc check --init=IndInit --inv=Inv --length=1 Shape.tla       *)
(* for all capacities up to usize::MAX at once (17 operations):                            *)
(*   (i)   IndInv /\ Op => IndInv'   (size <= n, n > 0 => start < n);      *)
(*   (ii)  no machine subtraction goes below 0, no addition above MaxU     *)
(*         (except inside overflowing_add), add_mod preconditions hold at  *)
(*         every call site, every slot index is < n, every slice range     *)
(*         and ptr::copy stays inside 0..n;                                *)
(*   (iii) Drain::drop's back-fill loop has nothing left after at most     *)
(*         three iterations.                                               *)
(* add_mod is used through its division-free closed form, justified for    *)
(* the real word width by WordArith.tla (Lemma).  The operators are the    *)
(* ones of Ring.tla with the element payload erased.                       *)
(***************************************************************************)
EXTENDS Integers

MaxU == 18446744073709551615

VARIABLES
    \* @type: Int;
    n,
    \* @type: Int;
    start,
    \* @type: Int;
    size,
    \* arguments: an index / length, a second index, a range a..b, a sub-range c..d of it
    \* @type: Int;
    i,
    \* @type: Int;
    j,
    \* @type: Int;
    a,
    \* @type: Int;
    b,
    \* @type: Int;
    c,
    \* @type: Int;
    d,
    \* @type: Str;
    op,
    \* @type: Bool;
    ok

Word(v) == 0 <= v /\ v <= MaxU
IndInv == Word(n) /\ Word(start) /\ Word(size) /\ size <= n /\ (n > 0 => start < n)

Min2(p, q) == IF p <= q THEN p ELSE q
\* add_mod(x, y, m): closed form; its debug_assert-ed preconditions are PreAM
AM(x, y, m) == IF x + y < m THEN x + y ELSE IF x + y < 2 * m THEN x + y - m ELSE 0
PreAM(x, y, m) == m > 0 /\ 0 <= x /\ x <= m /\ 0 <= y /\ y <= m
PreSM(x, y, m) == PreAM(x, y, m) /\ PreAM(x, m - y, m)
Idx(k) == 0 <= k /\ k < n                          \* a slot index
Rng(lo, hi, len) == 0 <= lo /\ lo <= hi /\ hi <= len   \* a slice range lo..hi of a slice of length len
Copy(src, dst, cnt) == cnt >= 0 /\ src >= 0 /\ dst >= 0 /\ src + cnt <= n /\ dst + cnt <= n

\* as_slices / as_mut_slices / make_contiguous: end, the `start < end` test, split_at(start), back[..end]
SlicesOK(st, sz) ==
    n = 0 \/ sz = 0 \/
    LET end == AM(st, sz, n) IN
    /\ PreAM(st, sz, n)
    /\ IF st < end THEN Rng(st, end, n) ELSE (Rng(0, st, n) /\ Rng(0, end, st))
\* total length shown by the two slices = sz
SlicesLen(st, sz) ==
    IF n = 0 \/ sz = 0 THEN 0
    ELSE LET end == AM(st, sz, n) IN IF st < end THEN end - st ELSE (n - st) + end
\* slices_uninit_mut
UninitOK(st, sz) ==
    n = 0 \/
    LET end == AM(st, sz, n) IN
    /\ PreAM(st, sz, n)
    /\ IF end < st THEN Rng(end, st, n) ELSE (Rng(0, end, n) /\ Rng(0, st, end))
UninitRight(st, sz) == LET end == AM(st, sz, n) IN IF end < st THEN st - end ELSE n - end
UninitLeft(st, sz) == LET end == AM(st, sz, n) IN IF end < st THEN 0 ELSE st
\* drop_range(lo..hi) on (st, sz): drop_from / drop_to and the two slices
DropRangeOK(st, sz, lo, hi) ==
    lo >= hi \/
    LET from == AM(st, lo, n)  to == AM(st, hi, n) IN
    /\ PreAM(st, lo, n) /\ PreAM(st, hi, n) /\ lo < sz /\ hi <= sz
    /\ IF from < to THEN Rng(from, to, n) ELSE (Rng(0, from, n) /\ Rng(0, to, from))

\* one iteration of the back-fill loop of Drain::drop: <<hole', back', remaining', obligations>>
CopyLen(hole, back, rem) == Min2(Min2(n - hole, n - back), rem)
FillOK(hole, back, rem) ==
    rem = 0 \/
    LET cl == CopyLen(hole, back, rem) IN
    /\ Idx(hole) /\ Idx(back) /\ n - hole >= 0 /\ n - back >= 0
    /\ Copy(back, hole, cl) /\ PreAM(hole, cl, n) /\ PreAM(back, cl, n) /\ rem - cl >= 0
Hole1(hole, back, rem) == IF rem = 0 THEN hole ELSE AM(hole, CopyLen(hole, back, rem), n)
Back1(hole, back, rem) == IF rem = 0 THEN back ELSE AM(back, CopyLen(hole, back, rem), n)
Rem1(hole, back, rem)  == IF rem = 0 THEN 0 ELSE rem - CopyLen(hole, back, rem)

Keep == start' = start /\ size' = size
Args == UNCHANGED <<n, i, j, a, b, c, d>>

Step(o) ==
    /\ op' = o /\ Args
    /\ CASE o = "push_back" ->
              IF n = 0 THEN Keep /\ ok' = TRUE
              ELSE IF size >= n
                   THEN /\ start' = AM(start, 1, n) /\ size' = size
                        /\ ok' = (Idx(start) /\ PreAM(start, 1, n))
                   ELSE /\ start' = start /\ size' = size + 1
                        /\ ok' = (size + 1 <= MaxU /\ PreAM(start, size, n) /\ Idx(AM(start, size, n)))
         [] o = "push_front" ->
              IF n = 0 THEN Keep /\ ok' = TRUE
              ELSE IF size >= n
                   THEN /\ start' = AM(start, n - 1, n) /\ size' = size
                        /\ ok' = (size - 1 >= 0 /\ PreAM(start, size - 1, n) /\ Idx(AM(start, size - 1, n)) /\ PreSM(start, 1, n))
                   ELSE /\ start' = AM(start, n - 1, n) /\ size' = size + 1
                        /\ ok' = (PreSM(start, 1, n) /\ Idx(AM(start, n - 1, n)))
         [] o = "pop_back" ->
              IF n = 0 \/ size = 0 THEN Keep /\ ok' = TRUE
              ELSE /\ start' = start /\ size' = size - 1
                   /\ ok' = (PreAM(start, size - 1, n) /\ Idx(AM(start, size - 1, n)))
         [] o = "pop_front" ->
              IF n = 0 \/ size = 0 THEN Keep /\ ok' = TRUE
              ELSE /\ start' = AM(start, 1, n) /\ size' = size - 1
                   /\ ok' = (Idx(start) /\ PreAM(start, 1, n))
         [] o = "get" ->            \* get / get_mut / nth_front / index: get_maybe_uninit(i)
              /\ Keep
              /\ ok' = (n = 0 \/ i >= size \/ (PreAM(start, i, n) /\ Idx(AM(start, i, n))))
         [] o = "nth_back" ->       \* size.checked_sub(i)?.checked_sub(1)? then get
              /\ Keep
              /\ ok' = (i > size \/ size - i < 1 \/ n = 0 \/
                        (size - i - 1 >= 0 /\ PreAM(start, size - i - 1, n) /\ Idx(AM(start, size - i - 1, n))))
         [] o = "swap" ->           \* assert!(i < size); assert!(j < size)
              /\ Keep
              /\ ok' = (i >= size \/ j >= size \/ i = j \/
                        (PreAM(start, i, n) /\ PreAM(start, j, n) /\ Idx(AM(start, i, n)) /\ Idx(AM(start, j, n))))
         [] o = "remove" ->
              IF n = 0 \/ i >= size THEN Keep /\ ok' = TRUE
              ELSE LET index == AM(start, i, n)  back == AM(start, size - 1, n) IN
                   /\ start' = start /\ size' = size - 1
                   /\ ok' = (/\ PreAM(start, i, n) /\ PreAM(start, size - 1, n) /\ Idx(index) /\ Idx(back)
                             /\ IF back >= index
                                THEN Copy(index + 1, index, back - index)
                                ELSE /\ n - index - 1 >= 0 /\ Copy(index + 1, index, n - index - 1)
                                     /\ Copy(0, n - 1, 1) /\ Copy(1, 0, back))
         [] o = "truncate_back" ->
              IF n = 0 \/ i >= size THEN Keep /\ ok' = TRUE
              ELSE /\ start' = start /\ size' = i
                   /\ ok' = DropRangeOK(start, size, i, size)
         [] o = "truncate_front" ->
              IF n = 0 \/ i >= size THEN Keep /\ ok' = TRUE
              ELSE /\ start' = AM(start, size - i, n) /\ size' = i
                   /\ ok' = (size - i >= 0 /\ DropRangeOK(start, size, 0, size - i) /\ PreAM(start, size - i, n))
         [] o = "as_slices" ->
              /\ Keep
              /\ ok' = (SlicesOK(start, size) /\ SlicesLen(start, size) = size)
         [] o = "make_contiguous" ->
              IF n = 0 \/ size = 0 THEN Keep /\ ok' = TRUE
              ELSE LET end == AM(start, size, n) IN
                   /\ size' = size
                   /\ start' = (IF start < end \/ end = 0 THEN start ELSE 0)
                   /\ ok' = (/\ PreAM(start, size, n)
                             /\ IF start < end THEN Rng(start, end, n)
                                ELSE IF end = 0 THEN (Rng(start, n, n) /\ n - start = size)
                                ELSE (start <= n /\ Rng(0, size, n)))         \* rotate_left(start); [..size]
         [] o = "extend_from_slice" ->         \* other.len() = i < n
              IF n = 0 \/ i >= n THEN Keep /\ ok' = TRUE
              ELSE LET free == n - size
                       sz1 == IF i < free THEN size ELSE Min2(size, n - i)             \* after truncate_front(n - i)
                       st1 == IF i < free \/ n - i >= size THEN start ELSE AM(start, size - (n - i), n)
                       w1 == Min2(UninitRight(st1, sz1), i)
                       sz2 == sz1 + w1
                       rest == i - w1 IN
                   /\ start' = st1 /\ size' = sz2 + rest
                   /\ ok' = (/\ free >= 0 /\ n - i >= 0
                             /\ (i < free \/ n - i >= size \/ (DropRangeOK(start, size, 0, size - (n - i)) /\ PreAM(start, size - (n - i), n)))
                             /\ UninitOK(st1, sz1) /\ Rng(0, w1, UninitRight(st1, sz1))
                             /\ sz2 <= n
                             /\ (rest = 0 \/ (UninitOK(st1, sz2) /\ rest <= UninitRight(st1, sz2)))
                             /\ sz2 + rest = (IF i < free THEN size + i ELSE n))
         [] o = "drain" ->           \* drain(a..b) with a <= b <= size; c..d = the part not yet yielded; then Drain::drop
              IF ~(a <= b /\ b <= size /\ a <= c /\ c <= d /\ d <= b) \/ n = 0 THEN Keep /\ ok' = TRUE
              ELSE LET bs == size
                       s1 == AM(start, c, n)  e1 == AM(start, d, n)
                       rem0 == bs - b
                       h0 == AM(start, a, n)  k0 == AM(start, b, n)
                       h1 == Hole1(h0, k0, rem0)  k1 == Back1(h0, k0, rem0)  r1 == Rem1(h0, k0, rem0)
                       h2 == Hole1(h1, k1, r1)    k2 == Back1(h1, k1, r1)    r2 == Rem1(h1, k1, r1)
                       r3 == Rem1(h2, k2, r2) IN
                   /\ start' = start /\ size' = bs - (b - a)
                   /\ ok' = (/\ (c >= d \/ (/\ PreAM(start, c, n) /\ PreAM(start, d, n)
                                             /\ IF s1 < e1 THEN Rng(s1, e1, n) ELSE (Rng(0, e1, n) /\ s1 - e1 >= 0 /\ Rng(s1 - e1, n - e1, n - e1))))
                             /\ rem0 >= 0 /\ PreAM(0, start, n) /\ PreAM(start, a, n) /\ PreAM(start, b, n)
                             /\ FillOK(h0, k0, rem0) /\ FillOK(h1, k1, r1) /\ FillOK(h2, k2, r2)
                             /\ r3 = 0                                   \* the loop runs at most three times
                             /\ bs - (b - a) >= 0)
         [] o = "range" ->           \* Iter::over_range(a..b): the two slices, advance_front_by(a), advance_back_by(len - b)
              /\ Keep
              /\ IF ~(a < b /\ b <= size) \/ n = 0 THEN ok' = TRUE
                 ELSE LET r0 == IF start < AM(start, size, n) THEN size ELSE n - start      \* |right|, |left| of as_slices
                          l0 == size - r0
                          r1 == IF r0 > a THEN r0 - a ELSE 0                                \* advance_front_by(a)
                          l1 == IF r0 > a THEN l0 ELSE l0 - (a - r0)
                          cb == size - b                                                    \* advance_back_by(len - b)
                          l2 == IF l1 > cb THEN l1 - cb ELSE 0
                          r2 == IF l1 > cb THEN r1 ELSE r1 - (cb - l1) IN
                      ok' = (/\ SlicesOK(start, size) /\ r0 >= 0 /\ l0 >= 0
                             /\ (r0 > a \/ (a - r0 >= 0 /\ a - r0 <= l0))                 \* take_left <= left.len()
                             /\ cb >= 0
                             /\ (l1 > cb \/ (cb - l1 >= 0 /\ r1 - (cb - l1) >= 0))         \* take_right does not underflow
                             /\ r2 + l2 = b - a)                                            \* exactly the selected elements remain
         [] o = "swap_remove" ->     \* swap(i, size - 1) + pop_back,  swap(i, 0) + pop_front
              /\ Keep
              /\ ok' = (i >= size \/ n = 0 \/
                        (/\ size - 1 >= 0 /\ PreAM(start, i, n) /\ PreAM(start, size - 1, n) /\ PreAM(start, 0, n)
                         /\ Idx(AM(start, i, n)) /\ Idx(AM(start, size - 1, n)) /\ Idx(AM(start, 0, n)) /\ PreAM(start, 1, n)))
         [] o = "read" ->            \* io::Read: count <= len copied, then truncate_front(len - count)
              IF n = 0 \/ i > size \/ i = 0 THEN Keep /\ ok' = TRUE
              ELSE /\ start' = AM(start, i, n) /\ size' = size - i
                   /\ ok' = (size - i >= 0 /\ DropRangeOK(start, size, 0, i) /\ PreAM(start, i, n))
         [] OTHER -> Keep /\ ok' = TRUE

Ops == {"push_back", "push_front", "pop_back", "pop_front", "get", "nth_back", "swap", "remove", "truncate_back",
        "truncate_front", "as_slices", "make_contiguous", "extend_from_slice", "drain", "read", "range", "swap_remove"}

\* any state satisfying the inductive invariant, any arguments
IndInit ==
    /\ n \in Int /\ start \in Int /\ size \in Int /\ i \in Int /\ j \in Int /\ a \in Int /\ b \in Int /\ c \in Int /\ d \in Int
    /\ IndInv
    /\ Word(i) /\ Word(j) /\ Word(a) /\ Word(b) /\ Word(c) /\ Word(d)
    /\ op = "init" /\ ok = TRUE
Init == IndInit
Next == \E o \in Ops : Step(o)

Inv == IndInv /\ ok

\* sanity mutants (each must be REFUTED): the inductive step with a broken mechanism
NextBadPushFront ==      \* start - 1 instead of sub_mod(start, 1, n)
    /\ op' = "push_front" /\ Args /\ size' = size /\ ok' = TRUE
    /\ start' = start - 1
NextBadFill ==           \* claim: two back-fill iterations always suffice
    /\ op' = "drain" /\ Args /\ Keep
    /\ IF ~(a <= b /\ b <= size) \/ n = 0 THEN ok' = TRUE
       ELSE LET rem0 == size - b  h0 == AM(start, a, n)  k0 == AM(start, b, n)
                h1 == Hole1(h0, k0, rem0)  k1 == Back1(h0, k0, rem0)  r1 == Rem1(h0, k0, rem0) IN
            ok' = (Rem1(h1, k1, r1) = 0)
=============================================================================
