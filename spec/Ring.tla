-------------------------------- MODULE Ring --------------------------------
(***************************************************************************)
(* L1 - the mechanism of circular-buffer: `start`, `size`, a slot array,   *)
(* and every operation transcribed from the Rust source (src/lib.rs,       *)
(* src/drain.rs, src/iter.rs) including its modular arithmetic, its        *)
(* segment computations, its memmoves and its unwinding behaviour when a   *)
(* user callback (destructor, clone, closure, iterator) panics at its k-th *)
(* invocation.                                                             *)
(*                                                                         *)
(* One completed call of the mechanism produces an event record of exactly *)
(* the shape the harness records from the real code.  The refinement       *)
(* obligation L1 => L0 is:  every such event satisfies the contract,       *)
(*     Fail(S, ev) = {}   and   PartitionFail(Next(S, ev)) = {}            *)
(* where S is the abstract (L0) state, advanced by Contract!Next.  The     *)
(* abstraction map is the observation function Obs: the buffer's contents  *)
(* are the ids found in the slots (start + i) mod N, i < size.             *)
(*                                                                         *)
(* Pinned = TRUE models the code as pinned (with its six defects, see      *)
(* DESIGN.md section 8); Pinned = FALSE models the repaired code.          *)
(***************************************************************************)
EXTENDS Contract, Json

CONSTANTS N,        \* capacity
          MaxU,     \* largest machine word (usize::MAX); 2^30 in ordinary configs, 2^W - 1 in word-width configs
          Pinned,   \* BOOLEAN
          Mode,     \* "oneshot": Init = every layout, one call (or one view life) per behaviour; "history": from new()
          MaxCalls, \* history mode: number of calls
          MaxArg,   \* largest length of slice / iterator / array arguments
          MaxScript,\* longest next / next_back script on a view
          Families  \* which operation families Next offers (subset of AllFamilies)

AllFamilies == {"single", "positional", "bulk", "fill", "extend", "access", "iter", "drain", "ctor", "faults", "io", "conv", "provided"}
\* the conversion family (clone, clone_from, to_vec, into_iter) starts from pairs of buffers
Conv == "conv" \in Families
\* the byte-stream family runs on buffers of plain bytes (Copy, no destructor): exclusive
Bytes == Families = {"io"}

VARIABLES start, size, slots,   \* the buffer
          S,                     \* L0 state
          ev,                    \* the last completed call
          fails,                 \* contract clauses violated by ev
          nid,                   \* next fresh element id
          view,                  \* the live drain / iterator, if any
          hist,                  \* events of this behaviour (scenario output)
          lay0,                  \* the initial layout (scenario output)
          ncalls
vars == <<start, size, slots, S, ev, fails, nid, view, hist, lay0, ncalls>>

Junk == -1
NoView == [on |-> FALSE, kind |-> "", buf_size |-> 0, rs |-> 0, re |-> 0, is |-> 0, ie |-> 0, right |-> <<>>, left |-> <<>>,
           short |-> FALSE, lens |-> FALSE, steps |-> 0, maxsteps |-> 0, byval |-> FALSE, nth |-> FALSE]

\* how the view will be exercised: canonical range forms get every interleaving of next / next_back
\* (up to one call past exhaustion), with len() after every step or never; other forms are only
\* measured and dropped
Script(vw, bs, be, lens, n) ==
    [vw EXCEPT !.short = ~(bs.t = "i" /\ be.t = "e"), !.lens = lens, !.steps = 0, !.maxsteps = Min(n + 1, MaxScript)]
LenDue == view.lens /\ ev.op \notin {"v_len", "v_size_hint", "v_debug"}

(***************************************************************************)
(* Machine arithmetic, exactly as lib.rs:240-257.                          *)
(***************************************************************************)
AddMod(x, y, m) ==
    IF ~(m > 0 /\ x <= m /\ y <= m) THEN Assert(FALSE, <<"add_mod precondition", x, y, m>>)
    ELSE LET s  == x + y
             ov == s > MaxU
             z  == IF ov THEN s - (MaxU + 1) ELSE s
             w  == z + (IF ov THEN (MaxU % m) + 1 ELSE 0)
         IN IF w > MaxU THEN Assert(FALSE, <<"add_mod intermediate overflow", x, y, m>>) ELSE w % m
SubMod(x, y, m) == AddMod(x, m - y, m)
USub(x, y) == IF x < y THEN Assert(FALSE, <<"usize subtraction underflow", x, y>>) ELSE x - y

Interval(a, b) == [k \in 1..(b - a) |-> a + k - 1]        \* the index sequence a, a+1, .., b-1

(***************************************************************************)
(* The running call: a record threaded through the steps of an operation.  *)
(***************************************************************************)
NoFault == [k |-> "none", n |-> 0]
R0(st, sz, sl, n) == [start |-> st, size |-> sz, slots |-> sl, cbs |-> <<>>, unw |-> FALSE, fired |-> FALSE,
                      nid |-> n, cnt |-> [drop |-> 0, clone |-> 0, gen |-> 0, iter |-> 0], last |-> 0,
                      ret |-> [k |-> "unit", ids |-> <<>>, ids2 |-> <<>>, slots |-> <<>>, n |-> 0, b |-> FALSE, s |-> "", s2 |-> ""],
                      gone |-> FALSE, bytes |-> Bytes]
KindCode(k) == CASE k = "drop" -> 0 [] k = "clone" -> 1 [] k = "gen" -> 2 [] k = "iter" -> 3 [] OTHER -> 4
Hit(r, kind, f) == f.k = kind /\ r.cnt[kind] + 1 = f.n /\ ~r.fired
Cb(k, id, src) == [k |-> k, id |-> id, src |-> src]

RetUnitR == [k |-> "unit", ids |-> <<>>, ids2 |-> <<>>, slots |-> <<>>, n |-> 0, b |-> FALSE, s |-> "", s2 |-> ""]
RetK(k) == [RetUnitR EXCEPT !.k = k]
RetId(k, id) == [RetUnitR EXCEPT !.k = k, !.ids = <<id>>]
RetIdAt(k, id, sl) == [RetUnitR EXCEPT !.k = k, !.ids = <<id>>, !.slots = <<sl>>]
RetN(n) == [RetUnitR EXCEPT !.k = "n", !.n = n]

\* a destructor runs on element x (the panic, if armed here, happens after the destructor's effect)
DropOne(r, x, f) ==
    IF r.bytes THEN r ELSE
    LET hit == Hit(r, "drop", f) IN
    [r EXCEPT !.cbs = @ \o <<Cb("drop", x, 0)>> \o (IF hit THEN <<Cb("panic", x, 0)>> ELSE <<>>),
              !.cnt.drop = @ + 1, !.unw = @ \/ hit, !.fired = @ \/ hit]
\* drop_in_place of a slice, and Dropper guards: every element is dropped even if one destructor panics
RECURSIVE DropMany(_, _, _)
DropMany(r, xs, f) == IF xs = <<>> THEN r ELSE DropMany(DropOne(r, Head(xs), f), Tail(xs), f)

\* T::clone on element src; r.last is the clone
CloneOne(r, src, f) ==
    IF r.bytes THEN [r EXCEPT !.last = src] ELSE
    IF Hit(r, "clone", f)
    THEN [r EXCEPT !.cbs = @ \o <<Cb("panic", src, 1)>>, !.cnt.clone = @ + 1, !.unw = TRUE, !.fired = TRUE, !.last = 0]
    ELSE [r EXCEPT !.cbs = @ \o <<Cb("clone", r.nid, src)>>, !.cnt.clone = @ + 1, !.nid = @ + 1, !.last = r.nid]
\* the user closure (gen) or user iterator (iter) produces a fresh element
GenOne(r, kind, f) ==
    IF Hit(r, kind, f)
    THEN [r EXCEPT !.cbs = @ \o <<Cb("panic", 0, KindCode(kind))>>, !.cnt[kind] = @ + 1, !.unw = TRUE, !.fired = TRUE, !.last = 0]
    ELSE [r EXCEPT !.cbs = @ \o <<Cb(kind, r.nid, 0)>>, !.cnt[kind] = @ + 1, !.nid = @ + 1, !.last = r.nid]

(***************************************************************************)
(* Views of the storage (as_slices, slices_uninit_mut, drop_range).        *)
(***************************************************************************)
\* as_slices / as_mut_slices: lib.rs:720-792, as sequences of slot indices
SlicesOf(st, sz) ==
    IF N = 0 \/ sz = 0 THEN <<<<>>, <<>>>>
    ELSE LET end == AddMod(st, sz, N) IN
         IF st < end THEN <<Interval(st, end), <<>>>>
         ELSE <<Interval(st, N), Interval(0, end)>>
\* slices_uninit_mut: lib.rs:846-863
UninitOf(st, sz) ==
    IF N = 0 THEN <<<<>>, <<>>>>
    ELSE LET end == AddMod(st, sz, N) IN
         IF end < st THEN <<Interval(end, st), <<>>>>
         ELSE <<Interval(end, N), Interval(0, st)>>
\* drop_range(a..b): lib.rs:891-934 - the slot indices dropped, `right` guard first, then `left`
DropRangeIdx(st, sz, a, b) ==
    IF a >= b THEN <<>>
    ELSE LET from == AddMod(st, a, N)
             to   == AddMod(st, b, N) IN
         IF from < to THEN Interval(from, to) ELSE Interval(from, N) \o Interval(0, to)
IdsAt(sl, idxs) == [k \in 1..Len(idxs) |-> sl[idxs[k]]]

\* ptr::copy(src, dst, cnt) on the slot array (memmove semantics)
MemMove(sl, src, dst, cnt) ==
    IF cnt = 0 THEN sl
    ELSE IF src + cnt > N \/ dst + cnt > N THEN Assert(FALSE, <<"ptr::copy out of bounds", src, dst, cnt>>)
    ELSE [k \in DOMAIN sl |-> IF k >= dst /\ k < dst + cnt THEN sl[src + (k - dst)] ELSE sl[k]]

(***************************************************************************)
(* What the harness observes after a call: as_slices, len, flags.          *)
(***************************************************************************)
Obs(st, sz, sl, S0, e0) ==
    LET p == SlicesOf(st, sz)
        idx == p[1] \o p[2]
        ids == IdsAt(sl, idx) IN
    [obs |-> TRUE, seq |-> ids, vals |-> [k \in 1..Len(ids) |-> IF e0.ty = "b" THEN ids[k] ELSE NewVal(S0, e0, ids[k])], slots |-> idx,
     len |-> sz, empty |-> (sz = 0), full |-> (sz = N), split |-> Len(p[1]), cap |-> N]
NoObs == [obs |-> FALSE, seq |-> <<>>, vals |-> <<>>, slots |-> <<>>, len |-> 0, empty |-> FALSE, full |-> FALSE, split |-> 0, cap |-> 0]

Ev0 == [e |-> "call", op |-> "", scn |-> "", ty |-> "t", feat |-> "", cap |-> N, h |-> 0, h2 |-> -1, v |-> -1, v2 |-> -1,
        i |-> 0, j |-> 0, ids |-> <<>>, vals |-> <<>>, bs |-> [t |-> "u", x |-> 0], be |-> [t |-> "u", x |-> 0], acc |-> "",
        cbs |-> <<>>, unw |-> FALSE, inj |-> FALSE, msg |-> "", ret |-> RetUnitR, post |-> NoObs, post2 |-> NoObs,
        rows |-> <<>>, allocs |-> 0, fk |-> "none", fn |-> 0]
PayloadOf(id) == id % 3

(***************************************************************************)
(* Single-element operations.                                              *)
(***************************************************************************)
\* lib.rs:1262-1284; returns r with r.last = the displaced element (0 if none)
PushBackR(r, x) ==
    IF N = 0 THEN [r EXCEPT !.last = x]
    ELSE IF r.size >= N
    THEN [r EXCEPT !.last = r.slots[r.start], !.slots[r.start] = x, !.start = AddMod(r.start, 1, N)]
    ELSE LET sz == r.size + 1 IN
         [r EXCEPT !.last = 0, !.size = sz, !.slots[AddMod(r.start, sz - 1, N)] = x]
\* lib.rs:1362-1385
PushFrontR(r, x) ==
    IF N = 0 THEN [r EXCEPT !.last = x]
    ELSE IF r.size >= N
    THEN LET back == AddMod(r.start, r.size - 1, N) IN
         [r EXCEPT !.last = r.slots[back], !.slots[back] = x, !.start = SubMod(r.start, 1, N)]
    ELSE LET st == SubMod(r.start, 1, N) IN
         [r EXCEPT !.last = 0, !.size = r.size + 1, !.start = st, !.slots[st] = x]
\* lib.rs:1447-1486
PopBackR(r) ==
    IF N = 0 \/ r.size = 0 THEN [r EXCEPT !.last = 0]
    ELSE [r EXCEPT !.last = r.slots[AddMod(r.start, r.size - 1, N)], !.size = r.size - 1]
PopFrontR(r) ==
    IF N = 0 \/ r.size = 0 THEN [r EXCEPT !.last = 0]
    ELSE [r EXCEPT !.last = r.slots[r.start], !.size = r.size - 1, !.start = AddMod(r.start, 1, N)]
OptRet(r) == [r EXCEPT !.ret = IF r.last = 0 THEN RetK("none") ELSE RetId("some", r.last)]

OpPush(r, op, x, f) ==
    CASE op = "push_back"  -> OptRet(PushBackR(r, x))
      [] op = "push_front" -> OptRet(PushFrontR(r, x))
      [] op \in {"try_push_back", "try_push_front"} ->
            IF N = 0 THEN (IF Pinned THEN [DropOne(r, x, f) EXCEPT !.ret = RetK("ok")]   \* F1: Ok(()) and the element is destroyed
                           ELSE [r EXCEPT !.ret = RetId("err", x)])
            ELSE IF r.size >= N THEN [r EXCEPT !.ret = RetId("err", x)]
            ELSE [(IF op = "try_push_back" THEN PushBackR(r, x) ELSE PushFrontR(r, x)) EXCEPT !.ret = RetK("ok")]
      [] op = "pop_back"  -> OptRet(PopBackR(r))
      [] OTHER            -> OptRet(PopFrontR(r))

(***************************************************************************)
(* Positional operations.                                                  *)
(***************************************************************************)
\* lib.rs:1504-1536
OpRemove(r, i) ==
    IF N = 0 \/ i >= r.size THEN [r EXCEPT !.ret = RetK("none")]
    ELSE LET index == AddMod(r.start, i, N)
             back  == AddMod(r.start, r.size - 1, N)
             item  == r.slots[index]
             sl    == IF back >= index
                      THEN MemMove(r.slots, index + 1, index, back - index)
                      ELSE LET s1 == MemMove(r.slots, index + 1, index, USub(USub(N, index), 1))
                               s2 == MemMove(s1, 0, N - 1, 1)
                           IN MemMove(s2, 1, 0, back)
         IN [r EXCEPT !.slots = sl, !.size = r.size - 1, !.ret = RetId("some", item)]
\* lib.rs:1563-1572 (the asserts are the documented panic)
SwapR(r, i, j) ==
    IF i >= r.size \/ j >= r.size THEN [r EXCEPT !.unw = TRUE]
    ELSE IF i = j THEN r
    ELSE LET a == AddMod(r.start, i, N)  b == AddMod(r.start, j, N) IN
         [r EXCEPT !.slots = [r.slots EXCEPT ![a] = r.slots[b], ![b] = r.slots[a]]]
OpSwapRemove(r, op, i) ==
    IF i >= r.size THEN [r EXCEPT !.ret = RetK("none")]
    ELSE IF op = "swap_remove_back" THEN OptRet(PopBackR(SwapR(r, i, r.size - 1)))
    ELSE OptRet(PopFrontR(SwapR(r, i, 0)))

(***************************************************************************)
(* truncate / clear: lib.rs:1826-1891.  The pinned code shrinks the buffer *)
(* after the destructors ran (F3); the repaired code shrinks first.        *)
(***************************************************************************)
TruncBack(r, len, f) ==
    IF N = 0 \/ len >= r.size THEN r
    ELSE LET idx == DropRangeIdx(r.start, r.size, len, r.size)
             r1  == DropMany(r, IdsAt(r.slots, idx), f) IN
         IF r1.unw /\ ~r.unw /\ Pinned THEN r1 ELSE [r1 EXCEPT !.size = len]
TruncFront(r, len, f) ==
    IF N = 0 \/ len >= r.size THEN r
    ELSE LET dl  == r.size - len
             idx == DropRangeIdx(r.start, r.size, 0, dl)
             r1  == DropMany(r, IdsAt(r.slots, idx), f) IN
         IF r1.unw /\ ~r.unw /\ Pinned THEN r1 ELSE [r1 EXCEPT !.start = AddMod(r.start, dl, N), !.size = len]
Clear(r, f) == TruncBack(r, 0, f)

(***************************************************************************)
(* fill family: lib.rs:1665-1804.                                          *)
(***************************************************************************)
RECURSIVE FillSpareLoop(_, _, _)
FillSpareLoop(r, x, f) ==      \* while size < N - 1 { push_back(value.clone()) }
    IF r.size + 1 >= N THEN r
    ELSE LET r1 == CloneOne(r, x, f) IN
         IF r1.unw THEN r1 ELSE FillSpareLoop(PushBackR(r1, r1.last), x, f)
FillSpare(r, x, f) ==
    IF r.unw THEN DropOne(r, x, f)                        \* unwinding out of fill(): `value` is dropped
    ELSE IF N = 0 \/ r.size = N THEN DropOne(r, x, f)      \* early return: `value` is dropped
    ELSE LET r1 == FillSpareLoop(r, x, f) IN
         IF r1.unw THEN DropOne(r1, x, f) ELSE PushBackR(r1, x)
RECURSIVE FillSpareWithLoop(_, _)
FillSpareWithLoop(r, f) ==
    IF N = 0 \/ r.size >= N \/ r.unw THEN r
    ELSE LET r1 == GenOne(r, "gen", f) IN
         IF r1.unw THEN r1 ELSE FillSpareWithLoop(PushBackR(r1, r1.last), f)

(***************************************************************************)
(* extend / from_iter: lib.rs:2079-2103 (push_back of every item; a        *)
(* displaced element is dropped at once).                                  *)
(***************************************************************************)
RECURSIVE ExtendLoop(_, _, _, _)
ExtendLoop(r, k, kind, f) ==       \* k items left in the user iterator
    IF k = 0 \/ r.unw THEN r
    ELSE LET r1 == GenOne(r, kind, f) IN
         IF r1.unw THEN r1
         ELSE LET r2 == PushBackR(r1, r1.last)
                  r3 == IF r2.last # 0 THEN DropOne(r2, r2.last, f) ELSE r2
              IN ExtendLoop(r3, k - 1, kind, f)
\* cloned(): the item is T::clone of the source element
RECURSIVE ExtendClonedLoop(_, _, _)
ExtendClonedLoop(r, src, f) ==
    IF src = <<>> \/ r.unw THEN r
    ELSE LET r1 == CloneOne(r, Head(src), f) IN
         IF r1.unw THEN r1
         ELSE LET r2 == PushBackR(r1, r1.last)
                  r3 == IF r2.last # 0 THEN DropOne(r2, r2.last, f) ELSE r2
              IN ExtendClonedLoop(r3, Tail(src), f)

(***************************************************************************)
(* extend_from_slice: lib.rs:1914-2010.                                    *)
(***************************************************************************)
\* write_uninit_slice_cloned(dst, src) with its Guard: on a clone panic the clones made so far
\* *in this call of the helper* are dropped
RECURSIVE WriteCloned(_, _, _, _, _)
WriteCloned(r, dst, src, f, done) ==
    IF src = <<>> THEN r
    ELSE LET r1 == CloneOne(r, Head(src), f) IN
         IF r1.unw THEN DropMany(r1, done, f)
         ELSE WriteCloned([r1 EXCEPT !.slots[Head(dst)] = r1.last], Tail(dst), Tail(src), f, done \o <<r1.last>>)
ExtendFromSlice(r, other, f) ==
    IF N = 0 THEN r
    ELSE IF Len(other) < N
    THEN LET free == N - r.size
             r1 == IF Len(other) < free THEN r ELSE TruncFront(r, N - Len(other), f)
             final == IF Len(other) < free THEN r.size + Len(other) ELSE N
         IN IF r1.unw THEN r1
            ELSE LET u  == UninitOf(r1.start, r1.size)
                     w1 == Min(Len(u[1]), Len(other))
                     r2 == WriteCloned(r1, SubSeq(u[1], 1, w1), SubSeq(other, 1, w1), f, <<>>)
                 IN IF r2.unw THEN r2
                    ELSE LET rest == SubSeq(other, w1 + 1, Len(other))
                             \* the repaired code accounts for the first segment before cloning into the second
                             r2b == IF Pinned THEN r2 ELSE [r2 EXCEPT !.size = r1.size + w1]
                             r3 == WriteCloned(r2b, SubSeq(u[2], 1, Len(rest)), rest, f, <<>>)
                         IN IF r3.unw THEN r3 ELSE [r3 EXCEPT !.size = final]
    ELSE LET r1 == Clear(r, f) IN
         IF r1.unw THEN r1
         ELSE LET r2 == WriteCloned([r1 EXCEPT !.start = 0], Interval(0, N), LastN(other, N), f, <<>>) IN
              IF r2.unw THEN r2 ELSE [r2 EXCEPT !.size = N]

(***************************************************************************)
(* make_contiguous: lib.rs:670-693.                                        *)
(***************************************************************************)
MakeContiguous(r) ==
    IF N = 0 \/ r.size = 0 THEN [r EXCEPT !.ret = [RetK("ids") EXCEPT !.ids = <<>>]]
    ELSE LET end == AddMod(r.start, r.size, N) IN
         IF r.start < end \/ (~Pinned /\ end = 0)
         THEN LET idx == Interval(r.start, r.start + r.size) IN
              [r EXCEPT !.ret = [RetK("ids") EXCEPT !.ids = IdsAt(r.slots, idx), !.slots = idx]]
         ELSE LET sl == [k \in DOMAIN r.slots |-> r.slots[(k + r.start) % N]]        \* rotate_left(start)
                  idx == Interval(0, r.size) IN
              [r EXCEPT !.slots = sl, !.start = 0, !.ret = [RetK("ids") EXCEPT !.ids = IdsAt(sl, idx), !.slots = idx]]

(***************************************************************************)
(* Accessors: lib.rs:952-1226.                                             *)
(***************************************************************************)
GetR(r, i) == IF N = 0 \/ i >= r.size THEN [r EXCEPT !.ret = RetK("none")]
              ELSE LET ix == AddMod(r.start, i, N) IN [r EXCEPT !.ret = RetIdAt("some", r.slots[ix], ix)]
Access(r, op, i) ==
    CASE op \in {"get", "get_mut", "nth_front", "nth_front_mut"} -> GetR(r, i)
      [] op \in {"nth_back", "nth_back_mut"} ->          \* size.checked_sub(i)?.checked_sub(1)?
            IF i > r.size \/ r.size - i < 1 THEN [r EXCEPT !.ret = RetK("none")] ELSE GetR(r, r.size - i - 1)
      [] op \in {"index", "index_mut"} -> LET g == GetR(r, i) IN IF g.ret.k = "none" THEN [r EXCEPT !.unw = TRUE] ELSE g
      [] op \in {"front", "front_mut"} ->
            IF N = 0 \/ r.size = 0 THEN [r EXCEPT !.ret = RetK("none")] ELSE [r EXCEPT !.ret = RetIdAt("some", r.slots[r.start], r.start)]
      [] op \in {"back", "back_mut"} ->
            IF N = 0 \/ r.size = 0 THEN [r EXCEPT !.ret = RetK("none")]
            ELSE LET b == AddMod(r.start, r.size - 1, N) IN [r EXCEPT !.ret = RetIdAt("some", r.slots[b], b)]
      [] OTHER ->                                         \* as_slices / as_mut_slices
            LET p == SlicesOf(r.start, r.size) IN
            [r EXCEPT !.ret = [RetK("slices") EXCEPT !.ids = IdsAt(r.slots, p[1]), !.ids2 = IdsAt(r.slots, p[2]), !.slots = p[1] \o p[2]]]

(***************************************************************************)
(* Constructors and conversions.                                           *)
(***************************************************************************)
\* a local buffer goes out of scope during unwinding: Drop -> clear()
DropLocal(r, f) == [Clear(r, f) EXCEPT !.gone = TRUE]
\* From<[T; M]>: lib.rs:2042-2077.  Pinned: the prefix is dropped in place while the array is still
\* owned by the frame, so a panicking destructor makes the unwinder drop the whole array again (F4).
FromArray(r, arr, f) ==
    LET m == Len(arr)
        sz == IF N >= m THEN m ELSE N
        sl == [k \in DOMAIN r.slots |-> IF k < sz THEN arr[m - sz + k + 1] ELSE r.slots[k]]
        r1 == DropMany(r, SubSeq(arr, 1, m - sz), f)
    IN IF r1.unw
       THEN (IF Pinned THEN [DropMany(r1, arr, f) EXCEPT !.gone = TRUE]
             \* repaired: the array is ManuallyDrop and the buffer already owns the last `sz` elements;
             \* unwinding drops the buffer
             ELSE DropLocal([r1 EXCEPT !.slots = sl, !.start = 0, !.size = sz], f))
       ELSE [r1 EXCEPT !.slots = sl, !.start = 0, !.size = sz]

(***************************************************************************)
(* Drain: drain.rs.                                                        *)
(***************************************************************************)
DrainNew(r, a, b) == [NoView EXCEPT !.on = TRUE, !.kind = "drain", !.buf_size = r.size, !.rs = a, !.re = b, !.is = a, !.ie = b]
\* Drain::drop: drop what was not yielded, back-fill the hole, restore the size
RECURSIVE Backfill(_, _, _, _, _)
Backfill(sl, hole, back, remaining, iters) ==
    IF remaining = 0 THEN <<sl, iters>>
    ELSE LET cl == Min(Min(USub(N, hole), USub(N, back)), remaining) IN
         IF iters >= 3 THEN Assert(FALSE, <<"back-fill loop runs a 4th time", hole, back, remaining>>)
         ELSE Backfill(MemMove(sl, back, hole, cl), AddMod(hole, cl, N), AddMod(back, cl, N), remaining - cl, iters + 1)
DrainDrop(r, d, f) ==
    LET rest == IF N = 0 \/ d.buf_size = 0 \/ d.is >= d.ie THEN <<>>
                ELSE LET s == AddMod(r.start, d.is, N)  e == AddMod(r.start, d.ie, N) IN
                     IF s < e THEN Interval(s, e) ELSE Interval(s, N) \o Interval(0, e)
        r1 == DropMany(r, IdsAt(r.slots, rest), f)
    IN IF r1.unw THEN r1                                   \* the rest of drop() is skipped: size stays 0
       ELSE IF N = 0 THEN (IF Pinned THEN [r1 EXCEPT !.unw = TRUE] ELSE r1)      \* F2: CircularSlicePtr on an empty array
       ELSE LET remaining == USub(d.buf_size, d.re)
                hole == AddMod(r.start, d.rs, N)
                back == AddMod(r.start, d.re, N)
                bf == Backfill(r1.slots, hole, back, remaining, 0)
            IN [r1 EXCEPT !.slots = bf[1], !.size = d.buf_size - (d.re - d.rs)]

(***************************************************************************)
(* Iter / IterMut: iter.rs (two slices, narrowed from both ends).          *)
(***************************************************************************)
AdvanceFront(it, c) ==
    IF Len(it.right) > c THEN [it EXCEPT !.right = DropN(it.right, c)]
    ELSE LET tl == c - Len(it.right) IN
         IF tl > Len(it.left) THEN Assert(FALSE, "advance past the back") ELSE [it EXCEPT !.left = DropN(it.left, tl), !.right = <<>>]
AdvanceBack(it, c) ==
    IF Len(it.left) > c THEN [it EXCEPT !.left = Take(it.left, Len(it.left) - c)]
    ELSE LET tr == USub(Len(it.right), c - Len(it.left)) IN [it EXCEPT !.right = Take(it.right, tr), !.left = <<>>]
IterNew(r, kind, a, b, full) ==
    LET p == SlicesOf(r.start, r.size)
        it0 == [NoView EXCEPT !.on = TRUE, !.kind = kind, !.right = p[1], !.left = p[2]] IN
    IF full THEN it0
    ELSE IF a >= b THEN [it0 EXCEPT !.right = <<>>, !.left = <<>>]
    ELSE AdvanceBack(AdvanceFront(it0, a), r.size - b)

(***************************************************************************)
(* One complete call: arguments -> event.                                  *)
(***************************************************************************)
\* the fault points of a call: one for each user callback of its unfaulted run r0
Faults(r0) ==
    {NoFault} \cup (IF "faults" \in Families
                    THEN UNION {{[k |-> kind, n |-> n] : n \in 1..r0.cnt[kind]} : kind \in {"drop", "clone", "gen", "iter"}}
                    ELSE {})

BoundsForms(n) ==  \* every RangeBounds form with every small value, plus the extremes
    LET xs == 0..Min(n + 1, MaxU) \cup (IF MaxU >= Top THEN {Top} ELSE {}) IN
    {[t |-> "u", x |-> 0]} \cup {[t |-> "i", x |-> x] : x \in xs} \cup {[t |-> "e", x |-> x] : x \in xs}

\* (in the small-word configurations usize::MAX is MaxU itself and N + 1 may not exist)
IdxArgs == 0..Min(N + 1, MaxU) \cup (IF MaxU >= Top THEN {Top} ELSE {})

\* the event of a completed buffer call
MkEv(op, r, ids, i, j, vals) ==
    LET e0 == [Ev0 EXCEPT !.op = op, !.h = IF op \in CtorOps THEN 1 ELSE 0, !.ids = ids, !.vals = vals, !.i = i, !.j = j, !.cbs = r.cbs, !.unw = r.unw, !.inj = r.fired,
                          !.ret = IF r.unw THEN RetK("panic") ELSE r.ret, !.allocs = IF r.unw THEN -1 ELSE 0]
    IN [e0 EXCEPT !.post = IF r.gone \/ (view.on /\ view.kind \in {"drain", "iter_mut"}) THEN NoObs ELSE Obs(r.start, r.size, r.slots, S, e0)]

\* after a call in which a fault fired, the buffer is (virtually) dropped: nothing may be destroyed a
\* second time "later", and what a user-code panic left behind must be destroyed by then
AfterFault(e, r, s2) ==
    IF ~e.inj \/ r.gone THEN {}
    ELSE LET r2 == DropLocal(R0(r.start, r.size, r.slots, r.nid), NoFault)
             e2 == [Ev0 EXCEPT !.op = "drop_buf", !.cbs = r2.cbs, !.allocs = -1]
         IN Fail(s2, e2) \cup LimboFail(Next(s2, e2))

Commit(e, r) ==
    LET s2 == Next(S, e) IN
    /\ start' = r.start /\ size' = r.size /\ slots' = r.slots /\ nid' = r.nid
    /\ ev' = e /\ S' = s2
    /\ fails' = Fail(S, e) \cup PartitionFail(s2) \cup AfterFault(e, r, s2)
    /\ hist' = Append(hist, e)
    /\ ncalls' = ncalls + 1
    /\ UNCHANGED lay0

Rnow == R0(start, size, slots, nid)
FreshIds(k) == [x \in 1..k |-> nid + x - 1]
Payloads(ids) == [x \in 1..Len(ids) |-> PayloadOf(ids[x])]

\* run `Body(r, f)` for every fault point it has
WithFaults(Body(_, _), op, ids, i, j, vals) ==
    LET base == [Rnow EXCEPT !.nid = nid + Len(ids)] IN
    \E f \in Faults(Body(base, NoFault)) :
        LET r == Body(base, f) IN
           /\ (f.k = "none" \/ r.fired)
           /\ Commit([MkEv(op, r, ids, i, j, vals) EXCEPT !.fk = f.k, !.fn = f.n], r) /\ UNCHANGED view

Idle == ~view.on /\ fails = {}

NextSingle ==
    /\ "single" \in Families /\ Idle
    /\ \/ \E op \in {"push_back", "push_front", "try_push_back", "try_push_front"} :
            LET x == nid IN WithFaults(LAMBDA r, f : OpPush(r, op, x, f), op, <<x>>, 0, 0, <<PayloadOf(x)>>)
       \/ \E op \in {"pop_back", "pop_front"} : WithFaults(LAMBDA r, f : OpPush(r, op, 0, f), op, <<>>, 0, 0, <<>>)

NextPositional ==
    /\ "positional" \in Families /\ Idle
    /\ \/ \E i \in IdxArgs : WithFaults(LAMBDA r, f : OpRemove(r, i), "remove", <<>>, i, 0, <<>>)
       \/ \E i \in IdxArgs, j \in IdxArgs : WithFaults(LAMBDA r, f : SwapR(r, i, j), "swap", <<>>, i, j, <<>>)
       \/ \E op \in {"swap_remove_back", "swap_remove_front"}, i \in IdxArgs :
            WithFaults(LAMBDA r, f : OpSwapRemove(r, op, i), op, <<>>, i, 0, <<>>)

NextBulk ==
    /\ "bulk" \in Families /\ Idle
    /\ \/ \E n \in IdxArgs : WithFaults(LAMBDA r, f : TruncBack(r, n, f), "truncate_back", <<>>, n, 0, <<>>)
       \/ \E n \in IdxArgs : WithFaults(LAMBDA r, f : TruncFront(r, n, f), "truncate_front", <<>>, n, 0, <<>>)
       \/ WithFaults(LAMBDA r, f : Clear(r, f), "clear", <<>>, 0, 0, <<>>)
       \/ WithFaults(LAMBDA r, f : MakeContiguous(r), "make_contiguous", <<>>, 0, 0, <<>>)
       \/ /\ Mode = "oneshot" \/ ncalls = MaxCalls - 1
          /\ WithFaults(LAMBDA r, f : DropLocal(r, f), "drop_buf", <<>>, 0, 0, <<>>)

NextFill ==
    /\ "fill" \in Families /\ Idle
    /\ \/ LET x == nid IN WithFaults(LAMBDA r, f : FillSpare(Clear(r, f), x, f), "fill", <<x>>, 0, 0, <<PayloadOf(x)>>)
       \/ LET x == nid IN WithFaults(LAMBDA r, f : FillSpare(r, x, f), "fill_spare", <<x>>, 0, 0, <<PayloadOf(x)>>)
       \/ WithFaults(LAMBDA r, f : FillSpareWithLoop(Clear(r, f), f), "fill_with", <<>>, 0, 0, <<1>>)
       \/ WithFaults(LAMBDA r, f : FillSpareWithLoop(r, f), "fill_spare_with", <<>>, 0, 0, <<1>>)

NextExtend ==
    /\ "extend" \in Families /\ Idle
    /\ \E k \in 0..MaxArg :
          \/ WithFaults(LAMBDA r, f : ExtendLoop(r, k, "iter", f), "extend", <<>>, 0, 0, [x \in 1..k |-> x % 3])
          \/ LET ids == FreshIds(k) IN
             WithFaults(LAMBDA r, f : ExtendFromSlice(r, ids, f), "extend_from_slice", ids, 0, 0, Payloads(ids))

NextAccess ==
    /\ "access" \in Families /\ Idle
    /\ \/ \E op \in {"get", "get_mut", "nth_front", "nth_front_mut", "nth_back", "nth_back_mut", "index", "index_mut"}, i \in IdxArgs :
            WithFaults(LAMBDA r, f : Access(r, op, i), op, <<>>, i, 0, <<>>)
       \/ \E op \in {"front", "front_mut", "back", "back_mut", "as_slices", "as_mut_slices"} :
            WithFaults(LAMBDA r, f : Access(r, op, 0), op, <<>>, 0, 0, <<>>)

\* constructors build a fresh buffer (the one-shot layout is irrelevant: only offered from the empty layout)
NextCtor ==
    /\ "ctor" \in Families /\ Idle /\ size = 0 /\ start = 0 /\ Mode = "oneshot"
    /\ \E k \in 0..MaxArg :
          \/ LET ids == FreshIds(k) IN
             WithFaults(LAMBDA r, f : FromArray(r, ids, f), "from_array", ids, 0, 0, Payloads(ids))
          \/ WithFaults(LAMBDA r, f : LET r1 == ExtendLoop(r, k, "iter", f) IN IF r1.unw THEN DropLocal(r1, f) ELSE r1,
                        "from_iter", <<>>, 0, 0, [x \in 1..k |-> x % 3])

(***************************************************************************)
(* Conversions: Clone (lib.rs, impl Clone), to_vec, IntoIterator.          *)
(* The source of clone_from is buffer 1 of the abstract state; only its    *)
(* front-to-back order matters to the mechanism (it is read through        *)
(* iter()), its physical layout is part of the scenario.                   *)
(***************************************************************************)
MyIds == LET p == SlicesOf(start, size) IN IdsAt(slots, p[1] \o p[2])
FreshBuf == [Rnow EXCEPT !.start = 0, !.size = 0, !.slots = [k \in 0..(N - 1) |-> Junk]]
\* Vec::with_capacity + extend(iter().cloned()): on a clone panic the vector drops what it holds
RECURSIVE ToVecLoop(_, _, _, _)
ToVecLoop(r, src, f, acc) ==
    IF src = <<>> THEN [r EXCEPT !.ret = [RetK("ids") EXCEPT !.ids = acc]]
    ELSE LET r1 == CloneOne(r, Head(src), f) IN
         IF r1.unw THEN DropMany(r1, acc, f) ELSE ToVecLoop(r1, Tail(src), f, acc \o <<r1.last>>)

ConvEv(op, r, h2, f, post, post2) ==
    LET e0 == [Ev0 EXCEPT !.op = op, !.h2 = h2, !.cbs = r.cbs, !.unw = r.unw, !.inj = r.fired, !.fk = f.k, !.fn = f.n,
                          !.ret = IF r.unw THEN RetK("panic") ELSE r.ret, !.allocs = IF r.unw THEN -1 ELSE 0]
    IN [e0 EXCEPT !.post = IF post[1] THEN Obs(post[2].start, post[2].size, post[2].slots, S, e0) ELSE NoObs,
                  !.post2 = IF post2[1] THEN Obs(post2[2].start, post2[2].size, post2[2].slots, S, e0) ELSE NoObs]

\* operations that do not look at the second buffer are only offered for one (empty) source
SrcTrivial == lay0.src.start = 0 /\ lay0.src.size = 0
NextConv ==
    /\ Conv /\ Idle
    /\ \/ \E f \in Faults(ExtendClonedLoop(FreshBuf, MyIds, NoFault)) :
            LET r1 == ExtendClonedLoop(FreshBuf, MyIds, f)                                \* clone(): from_iter(iter().cloned())
                r == IF r1.unw THEN DropLocal(r1, f) ELSE r1
                keep == [Rnow EXCEPT !.nid = r.nid] IN
            /\ SrcTrivial
            /\ (f.k = "none" \/ r.fired)
            /\ Commit(ConvEv("clone", r, 2, f, <<TRUE, Rnow>>, <<~r.unw, r>>), keep) /\ UNCHANGED view
       \/ \E f \in Faults(ExtendClonedLoop(Clear(Rnow, NoFault), BufSeq(S, 1), NoFault)) :    \* clone_from(&other)
            LET r1 == Clear(Rnow, f)
                r == IF r1.unw THEN r1 ELSE ExtendClonedLoop(r1, BufSeq(S, 1), f) IN
            /\ (f.k = "none" \/ r.fired)
            /\ Commit(ConvEv("clone_from", r, 1, f, <<TRUE, r>>, <<FALSE, r>>), r) /\ UNCHANGED view
       \/ \E f \in Faults(ToVecLoop(Rnow, MyIds, NoFault, <<>>)) :                         \* to_vec()
            LET r == ToVecLoop(Rnow, MyIds, f, <<>>) IN
            /\ SrcTrivial
            /\ (f.k = "none" \/ r.fired)
            /\ Commit(ConvEv("to_vec", r, -1, f, <<TRUE, Rnow>>, <<FALSE, r>>), [Rnow EXCEPT !.nid = r.nid]) /\ UNCHANGED view
       \/ LET r == [Rnow EXCEPT !.ret = RetN(size)]                                        \* into_iter()
               e == [ConvEv("into_iter", r, -1, NoFault, <<FALSE, r>>, <<FALSE, r>>) EXCEPT !.v = 0] IN
           /\ SrcTrivial
           /\ \E lens \in {FALSE, TRUE} :
                 view' = Script([NoView EXCEPT !.on = TRUE, !.kind = "into"], [t |-> "i", x |-> 0], [t |-> "e", x |-> size], lens, size)
           /\ Commit(e, r)

(***************************************************************************)
(* Byte-stream I/O: io.rs / embedded_io.rs (the three trait families share *)
(* these bodies).                                                          *)
(***************************************************************************)
IoEv(op, r, i, vals, ret) ==
    LET e0 == [Ev0 EXCEPT !.ty = "b", !.op = op, !.acc = "std", !.i = i, !.vals = vals, !.unw = r.unw,
                          !.ret = IF r.unw THEN RetK("panic") ELSE ret, !.allocs = IF r.unw THEN -1 ELSE 0]
    IN [e0 EXCEPT !.post = Obs(r.start, r.size, r.slots, S, e0)]
NextIO ==
    /\ Bytes /\ Idle
    /\ \/ \E k \in 0..MaxArg :                                    \* write: extend_from_slice, Ok(len)
            LET data == [x \in 1..k |-> 100 + x]
                r == ExtendFromSlice(Rnow, data, NoFault) IN
            Commit(IoEv("write", r, 0, data, RetN(k)), r) /\ UNCHANGED view
       \/ Commit(IoEv("flush", Rnow, 0, <<>>, RetK("ok")), Rnow) /\ UNCHANGED view
       \/ \E k \in 0..MaxArg :                                    \* Extend<&u8>: push_back(*item) for every item
            LET data == [x \in 1..k |-> 100 + x]
                r == ExtendClonedLoop(Rnow, data, NoFault) IN
            Commit(IoEv("extend_ref", r, 0, data, RetUnitR), r) /\ UNCHANGED view
       \/ \E k \in 0..(N + 2) :                                     \* read: copy from both slices, truncate_front
            LET p == SlicesOf(start, size)
                c1 == Min(Len(p[1]), k)
                c2 == Min(Len(p[2]), k - c1)
                got == IdsAt(slots, SubSeq(p[1], 1, c1) \o SubSeq(p[2], 1, c2))
                r == TruncFront(Rnow, USub(size, c1 + c2), NoFault) IN
            Commit(IoEv("read", r, k, <<>>, [RetN(c1 + c2) EXCEPT !.ids = got]), r) /\ UNCHANGED view
       \/ \E k \in 0..(N + 2) :                                     \* read_exact (provided method): loop of read()
            LET enough == k <= size
                r == TruncFront(Rnow, IF enough THEN size - k ELSE 0, NoFault)
                got == IF enough THEN SubSeq(MyIds, 1, k) ELSE <<>> IN
            Commit(IoEv("read_exact", r, k, <<>>, [RetK(IF enough THEN "ok" ELSE "eof") EXCEPT !.ids = got]), r) /\ UNCHANGED view
       \/ \E k \in 0..MaxArg :                                    \* write_all (provided method): loop of write()
            LET data == [x \in 1..k |-> 100 + x]
                r == ExtendFromSlice(Rnow, data, NoFault) IN
            Commit(IoEv("write_all", r, 0, data, RetK("ok")), r) /\ UNCHANGED view
       \/ Commit(IoEv("hash", Rnow, 0, <<>>, [RetK("str") EXCEPT !.n = 1]), Rnow) /\ UNCHANGED view   \* Hash, ==, cmp, Debug: observers
       \/ \E op \in {"read_to_end", "read_to_string"} :            \* provided methods: read() until it returns 0
            LET r == TruncFront(Rnow, 0, NoFault) IN
            Commit(IoEv(op, r, IF op = "read_to_string" THEN 1 ELSE 0, <<>>, [RetN(size) EXCEPT !.ids = MyIds]), r) /\ UNCHANGED view
       \/ \E d \in 0..N :                                          \* read_until (provided): fill_buf / consume up to the delimiter
            LET hits == {j \in 1..size : MyIds[j] = d}
                k == IF hits = {} THEN size ELSE CHOOSE j \in hits : \A j2 \in hits : j <= j2
                r == TruncFront(Rnow, size - k, NoFault) IN
            Commit(IoEv("read_until", r, d, <<>>, [RetN(k) EXCEPT !.ids = SubSeq(MyIds, 1, k)]), r) /\ UNCHANGED view
       \/ \E k1 \in 0..2, k2 \in 0..2 :                            \* read_vectored (provided): read() into the first non-empty buffer
            LET k == Min(IF k1 > 0 THEN k1 ELSE k2, size)
                r == TruncFront(Rnow, size - k, NoFault) IN
            Commit(IoEv("read_vectored", r, 0, <<k1, k2>>, [RetN(k) EXCEPT !.ids = SubSeq(MyIds, 1, k)]), r) /\ UNCHANGED view
       \/ \E k \in 0..MaxArg : \E cut \in 0..k :                   \* write_vectored (provided): write() of the first non-empty buffer
            LET data == [x \in 1..k |-> 100 + x]
                part == IF cut > 0 THEN SubSeq(data, 1, cut) ELSE data
                r == ExtendFromSlice(Rnow, part, NoFault) IN
            Commit(IoEv("write_vectored", r, cut, data, RetN(Len(part))), r) /\ UNCHANGED view
       \/ \E k \in 0..MaxArg : \E cut \in 0..k :                   \* write_fmt (provided): write_all() of every piece
            LET data == [x \in 1..k |-> 100 + x]
                r1 == ExtendFromSlice(Rnow, SubSeq(data, 1, cut), NoFault)
                r == ExtendFromSlice(r1, SubSeq(data, cut + 1, k), NoFault) IN
            Commit(IoEv("write_fmt", r, cut, data, RetK("ok")), r) /\ UNCHANGED view
       \/ LET p == SlicesOf(start, size)                            \* fill_buf: the front slice unless it is empty
               sl == IF p[1] # <<>> THEN p[1] ELSE p[2] IN
           Commit(IoEv("fill_buf", Rnow, 0, <<>>, [RetK("ids") EXCEPT !.ids = IdsAt(slots, sl), !.slots = sl]), Rnow) /\ UNCHANGED view
       \/ \E k \in 0..(N + 2) \cup {Top} :                          \* consume: drain(..min(amt, len)), dropped at once
            LET amt == Min(k, size)
                d == DrainNew(Rnow, 0, amt)
                r == DrainDrop([Rnow EXCEPT !.size = 0], d, NoFault) IN
            Commit(IoEv("consume", r, k, <<>>, RetUnitR), r) /\ UNCHANGED view

(***************************************************************************)
(* Views: a drain or an iterator lives across several calls.               *)
(***************************************************************************)
ViewEv(op, r, e1) ==
    [e1 EXCEPT !.op = op, !.v = 0, !.cbs = r.cbs, !.unw = r.unw, !.inj = r.fired,
               !.ret = IF r.unw THEN RetK("panic") ELSE r.ret, !.allocs = IF r.unw THEN -1 ELSE 0]

NextViewNew ==
    /\ Idle
    /\ \/ /\ "drain" \in Families
          /\ \E bs \in BoundsForms(size), be \in BoundsForms(size) :
                LET bad == BadRange(bs, be, size)
                    a == BStart(bs)  b == BEnd(be, size)
                    r == IF bad THEN [Rnow EXCEPT !.unw = TRUE] ELSE [Rnow EXCEPT !.size = 0, !.ret = RetN(b - a)]
                    e == [ViewEv("drain", r, Ev0) EXCEPT !.bs = bs, !.be = be] IN
                /\ \E lens \in {FALSE, TRUE} :
                      view' = IF bad THEN NoView ELSE Script(DrainNew(Rnow, a, b), bs, be, lens, b - a)
                /\ Commit([e EXCEPT !.post = IF bad THEN Obs(start, size, slots, S, e) ELSE NoObs], r)
       \/ /\ "iter" \in Families
          /\ \E op \in {"range", "range_mut"}, bs \in BoundsForms(size), be \in BoundsForms(size) :
                LET bad == BadRange(bs, be, size)
                    a == BStart(bs)  b == BEnd(be, size)
                    it == IF bad THEN NoView ELSE IterNew(Rnow, IF op = "range" THEN "iter" ELSE "iter_mut", a, b, FALSE)
                    r == IF bad THEN [Rnow EXCEPT !.unw = TRUE] ELSE [Rnow EXCEPT !.ret = RetN(Len(it.right) + Len(it.left))]
                    e == [ViewEv(op, r, Ev0) EXCEPT !.bs = bs, !.be = be] IN
                /\ \E lens \in {FALSE, TRUE} : view' = IF bad THEN NoView ELSE Script(it, bs, be, lens, Len(it.right) + Len(it.left))
                /\ Commit([e EXCEPT !.post = IF op = "range_mut" /\ ~bad THEN NoObs ELSE Obs(start, size, slots, S, e)], r)
       \/ /\ "iter" \in Families
          /\ \E op \in {"iter", "iter_mut"} :
                LET it == IterNew(Rnow, op, 0, size, TRUE)
                    r == [Rnow EXCEPT !.ret = RetN(Len(it.right) + Len(it.left))]
                    e == ViewEv(op, r, Ev0) IN
                /\ \E lens \in {FALSE, TRUE} : view' = Script(it, [t |-> "i", x |-> 0], [t |-> "e", x |-> size], lens, size)
                /\ Commit([e EXCEPT !.post = IF op = "iter_mut" THEN NoObs ELSE Obs(start, size, slots, S, e)], r)

ViewObs(e) == IF view.kind \in {"drain", "iter_mut", "into"} THEN NoObs ELSE Obs(start, size, slots, S, e)
IntoH(e) == IF view.kind = "into" THEN [e EXCEPT !.h = -1] ELSE e

\* one next() / next_back() on the running record: [r, vw, id (0: nothing left), at (slot index, borrowing views)]
ViewTake(r, vw, back) ==
    IF vw.kind = "into"
    THEN LET rr == IF back THEN PopBackR(r) ELSE PopFrontR(r) IN [r |-> rr, vw |-> vw, id |-> rr.last, at |-> -1]
    ELSE IF vw.kind = "drain"
    THEN LET has == vw.is < vw.ie
             idx == IF back THEN vw.ie - 1 ELSE vw.is IN
         [r |-> r, vw |-> IF ~has THEN vw ELSE IF back THEN [vw EXCEPT !.ie = @ - 1] ELSE [vw EXCEPT !.is = @ + 1],
          id |-> IF has THEN r.slots[AddMod(r.start, idx, N)] ELSE 0, at |-> -1]
    ELSE LET fromRight == IF back THEN vw.left = <<>> ELSE vw.right # <<>>
             src == IF fromRight THEN vw.right ELSE vw.left
             has == src # <<>>
             ix == IF ~has THEN 0 ELSE IF back THEN src[Len(src)] ELSE src[1]
             rest == IF ~has THEN src ELSE IF back THEN Take(src, Len(src) - 1) ELSE Tail(src) IN
         [r |-> r, vw |-> IF fromRight THEN [vw EXCEPT !.right = rest] ELSE [vw EXCEPT !.left = rest],
          id |-> IF has THEN r.slots[ix] ELSE 0, at |-> ix]
\* nth(k) / nth_back(k), provided methods: next() k times, each result dropped at once, then next()
RECURSIVE NthLoop(_, _, _, _)
NthLoop(r, vw, back, k) ==
    LET t == ViewTake(r, vw, back) IN
    IF t.id = 0 THEN [r |-> [t.r EXCEPT !.ret = RetK("none")], vw |-> t.vw]
    ELSE IF k = 0 THEN [r |-> [t.r EXCEPT !.ret = IF t.at >= 0 THEN RetIdAt("some", t.id, t.at) ELSE RetId("some", t.id)], vw |-> t.vw]
    ELSE NthLoop(IF vw.kind \in {"drain", "into"} THEN DropOne(t.r, t.id, NoFault) ELSE t.r, t.vw, back, k - 1)

NextViewStep ==
    /\ view.on /\ fails = {}
    /\ \/ \E back \in {FALSE, TRUE} :
            LET op == IF back THEN "v_next_back" ELSE "v_next" IN
            /\ ~view.short /\ ~LenDue /\ view.steps < view.maxsteps /\ ~view.byval
            /\ IF view.kind = "into"      \* IntoIter: pop_front / pop_back on the owned buffer
               THEN LET r == OptRet(IF back THEN PopBackR(Rnow) ELSE PopFrontR(Rnow))
                        e == IntoH(ViewEv(op, r, Ev0)) IN
                    /\ view' = [view EXCEPT !.steps = @ + 1]
                    /\ Commit(e, r)
               ELSE IF view.kind = "drain"
               THEN LET has == view.is < view.ie
                     idx == IF back THEN view.ie - 1 ELSE view.is
                     r == IF has THEN [Rnow EXCEPT !.ret = RetId("some", slots[AddMod(start, idx, N)])] ELSE [Rnow EXCEPT !.ret = RetK("none")]
                     e == ViewEv(op, r, Ev0) IN
                 /\ view' = [(IF ~has THEN view ELSE IF back THEN [view EXCEPT !.ie = @ - 1] ELSE [view EXCEPT !.is = @ + 1])
                                EXCEPT !.steps = @ + 1]
                 /\ Commit(e, r)
               ELSE LET fromRight == IF back THEN view.left = <<>> ELSE view.right # <<>>
                     src == IF fromRight THEN view.right ELSE view.left
                     has == src # <<>>
                     ix == IF ~has THEN 0 ELSE IF back THEN src[Len(src)] ELSE src[1]
                     r == IF has THEN [Rnow EXCEPT !.ret = RetIdAt("some", slots[ix], ix)] ELSE [Rnow EXCEPT !.ret = RetK("none")]
                     e == ViewEv(op, r, Ev0)
                     rest == IF ~has THEN src ELSE IF back THEN Take(src, Len(src) - 1) ELSE Tail(src) IN
                 /\ view' = [(IF fromRight THEN [view EXCEPT !.right = rest] ELSE [view EXCEPT !.left = rest]) EXCEPT !.steps = @ + 1]
                 /\ Commit([e EXCEPT !.post = ViewObs(e)], r)
       \/ LET n == IF view.kind = "drain" THEN view.ie - view.is ELSE IF view.kind = "into" THEN size ELSE Len(view.right) + Len(view.left)
              r == [Rnow EXCEPT !.ret = [RetN(n) EXCEPT !.ids2 = <<n, n>>]]
              win == IF view.kind = "drain" THEN IdsAt(slots, [k \in 1..n |-> AddMod(start, view.is + k - 1, N)])
                     ELSE IF view.kind = "into" THEN MyIds ELSE IdsAt(slots, view.right \o view.left)
              \* the measuring call after each step cycles through len(), size_hint() and Debug formatting
              which == CASE view.steps % 3 = 0 -> "v_len" [] view.steps % 3 = 1 -> "v_size_hint" [] OTHER -> "v_debug"
              rd == [Rnow EXCEPT !.ret = [RetK("str") EXCEPT !.ids2 = Vals(S, win), !.b = TRUE],
                                 !.cbs = [k \in 1..Len(win) |-> Cb("fmt", win[k], 0)]]
              e == IntoH(IF which = "v_debug" THEN [ViewEv("v_debug", rd, Ev0) EXCEPT !.allocs = -1] ELSE ViewEv(which, r, Ev0)) IN
          /\ LenDue /\ ~view.byval
          /\ view' = view
          /\ Commit([e EXCEPT !.post = ViewObs(e)], r)
       \/ \E f \in Faults(IF view.kind = "drain" THEN DrainDrop(Rnow, view, NoFault)
                           ELSE IF view.kind = "into" THEN DropLocal(Rnow, NoFault) ELSE Rnow) :
            LET r == IF view.kind = "drain" THEN DrainDrop(Rnow, view, f)
                     ELSE IF view.kind = "into" THEN DropLocal(Rnow, f) ELSE Rnow
                e == IntoH(ViewEv("v_drop", r, Ev0)) IN
            /\ (f.k = "none" \/ r.fired) /\ ~LenDue
            /\ view' = NoView
            /\ Commit([e EXCEPT !.post = IF view.kind = "into" THEN NoObs ELSE Obs(r.start, r.size, r.slots, S, e), !.fk = f.k, !.fn = f.n], r)
       \/ \E back \in {FALSE, TRUE}, k \in 0..2 :    \* nth / nth_back as the first or second step; the script then ends soon
            LET res == NthLoop(Rnow, view, back, k)
                e == IntoH([ViewEv(IF back THEN "v_nth_back" ELSE "v_nth", res.r, Ev0) EXCEPT !.i = k]) IN
            /\ "provided" \in Families
            /\ ~view.short /\ ~LenDue /\ ~view.byval /\ ~view.nth /\ view.steps <= 1 /\ view.steps < view.maxsteps
            /\ view' = [res.vw EXCEPT !.nth = TRUE, !.steps = @ + 1, !.maxsteps = Min(@, view.steps + 2)]
            /\ Commit([e EXCEPT !.post = ViewObs(e)], res.r)
       \/ \E back \in {FALSE, TRUE} :       \* fold / rfold (provided methods that take the view by value): everything
            \* that is left is handed over in order, nothing is destroyed; the view is then dropped by the same call
            \* (recorded as the v_drop that follows)
            LET n == IF view.kind = "drain" THEN view.ie - view.is ELSE IF view.kind = "into" THEN size ELSE Len(view.right) + Len(view.left)
                win == IF view.kind = "drain" THEN IdsAt(slots, [k \in 1..n |-> AddMod(start, view.is + k - 1, N)])
                       ELSE IF view.kind = "into" THEN MyIds ELSE IdsAt(slots, view.right \o view.left)
                at == IF view.kind \in {"drain", "into"} THEN <<>> ELSE view.right \o view.left
                r0 == IF view.kind = "into"      \* pop_front / pop_back until empty
                      THEN [Rnow EXCEPT !.size = 0, !.start = IF back \/ N = 0 THEN start ELSE AddMod(start, size, N)]
                      ELSE Rnow
                r == [r0 EXCEPT !.ret = [RetK("ids") EXCEPT !.ids = IF back THEN Rev(win) ELSE win, !.slots = IF back THEN Rev(at) ELSE at]]
                e == IntoH([ViewEv("v_rest", r, Ev0) EXCEPT !.acc = IF back THEN "rfold" ELSE "fold", !.i = IF back THEN 1 ELSE 0, !.allocs = -1]) IN
            /\ "provided" \in Families
            /\ ~LenDue /\ ~view.byval /\ ~view.short /\ ~view.nth
            /\ view' = [view EXCEPT !.byval = TRUE, !.lens = FALSE, !.is = view.ie, !.right = <<>>, !.left = <<>>]
            /\ Commit(e, r)
       \/ /\ view.kind = "drain" /\ ~LenDue /\ ~view.short /\ ~view.byval /\ ~view.nth
          /\ LET r == Rnow  e == ViewEv("v_forget", r, Ev0) IN
             /\ view' = NoView
             /\ Commit([e EXCEPT !.post = Obs(start, size, slots, S, e)], r)

(***************************************************************************)
(* Specification.                                                          *)
(***************************************************************************)
Layouts == IF N = 0 THEN {<<0, 0>>} ELSE (0..(N - 1)) \X (0..N)

InitLayout(st, sz) ==
    LET sl == [k \in 0..(N - 1) |-> IF N > 0 /\ ((k - st + N) % N) < sz THEN ((k - st + N) % N) + 1 ELSE Junk]
        ids == [k \in 1..sz |-> k]
        p == SlicesOf(st, sz)
        buf == [cap |-> N, seq |-> IdsAt(sl, p[1] \o p[2]), slot |-> p[1] \o p[2], split |-> Len(p[1]), lock |-> -1] IN
    /\ start = st /\ size = sz /\ slots = sl
    /\ S = IF Bytes THEN [InitS EXCEPT !.bufs = (0 :> buf)]
           ELSE [InitS EXCEPT !.bufs = (0 :> buf), !.nd = [id \in 1..sz |-> 0], !.val = [id \in 1..sz |-> PayloadOf(id)]]
    /\ nid = sz + 1
    /\ lay0 = [n |-> N, start |-> st, size |-> sz, src |-> [start |-> 0, size |-> 0]]

\* conversion family: a second buffer (handle 1) with its own layout and fresh elements
InitPair(st, sz, st2, sz2) ==
    LET sl == [k \in 0..(N - 1) |-> IF N > 0 /\ ((k - st + N) % N) < sz THEN ((k - st + N) % N) + 1 ELSE Junk]
        p == SlicesOf(st, sz)
        q == SlicesOf(st2, sz2)
        buf == [cap |-> N, seq |-> IdsAt(sl, p[1] \o p[2]), slot |-> p[1] \o p[2], split |-> Len(p[1]), lock |-> -1]
        src == [cap |-> N, seq |-> [k \in 1..sz2 |-> sz + k], slot |-> q[1] \o q[2], split |-> Len(q[1]), lock |-> -1] IN
    /\ start = st /\ size = sz /\ slots = sl
    /\ S = [InitS EXCEPT !.bufs = (0 :> buf) @@ (1 :> src), !.nd = [id \in 1..(sz + sz2) |-> 0],
                         !.val = [id \in 1..(sz + sz2) |-> PayloadOf(id)]]
    /\ nid = sz + sz2 + 1
    /\ lay0 = [n |-> N, start |-> st, size |-> sz, src |-> [start |-> st2, size |-> sz2]]

Init ==
    /\ IF Conv THEN \E lay \in Layouts, lay2 \in Layouts : InitPair(lay[1], lay[2], lay2[1], lay2[2])
       ELSE \E lay \in (IF Mode = "oneshot" THEN Layouts ELSE {<<0, 0>>}) : InitLayout(lay[1], lay[2])
    /\ ev = Ev0 /\ fails = {} /\ view = NoView /\ hist = <<>> /\ ncalls = 0

Finished == IF Mode = "oneshot" THEN ncalls >= 1 /\ ~view.on ELSE ncalls >= MaxCalls

Single     == ~Finished /\ NextSingle
Positional == ~Finished /\ NextPositional
Bulk       == ~Finished /\ NextBulk
Fill       == ~Finished /\ NextFill
Extend     == ~Finished /\ NextExtend
AccessA    == ~Finished /\ NextAccess
Ctor       == ~Finished /\ NextCtor
ViewNewA   == ~Finished /\ NextViewNew
ViewStepA  == ~Finished /\ NextViewStep
IOA        == ~Finished /\ NextIO
ConvA      == ~Finished /\ NextConv
NextCall == IOA \/ ConvA \/ Single \/ Positional \/ Bulk \/ Fill \/ Extend \/ AccessA \/ Ctor \/ ViewNewA \/ ViewStepA
Spec == Init /\ [][NextCall]_vars

(***************************************************************************)
(* Properties.                                                             *)
(***************************************************************************)
\* the refinement obligation: every call the mechanism completes satisfies the contract
Refines == fails = {}
\* the mechanism's own invariants
Occupied == IF N = 0 THEN {} ELSE {(start + k) % N : k \in 0..(size - 1)}
MechInv ==
    /\ size <= N /\ (N > 0 => start < N)
    /\ (view.on /\ view.kind = "drain" => size = 0)
\* panic-free behaviours: exactly the occupied slots hold the buffer's live elements
OccInv == (S.taint = "" /\ ~view.on /\ ~Bytes) =>
              /\ \A k \in Occupied : slots[k] > 0 /\ Nd(S, slots[k]) = 0
              /\ \A k, m \in Occupied : k # m => slots[k] # slots[m]

\* reachability of the one-shot initial states: with this VIEW, TLC's distinct states in history mode are the
\* physical layouts (start, size) reachable from new() (Reach_Ring.cfg.tmpl)
LayoutView == <<start, size>>

\* scenario output: one JSON line per finished behaviour
\* (inputs, plus what the mechanism predicts for the layout afterwards - used for drift notes only)
Slim(e) == [ty |-> e.ty, op |-> e.op, acc |-> e.acc, i |-> e.i, j |-> e.j, nids |-> Len(e.ids), vals |-> e.vals, bs |-> e.bs, be |-> e.be,
            fk |-> e.fk, fn |-> e.fn, unw |-> e.unw, retk |-> e.ret.k, obs |-> e.post.obs, seq |-> e.post.seq,
            slots |-> e.post.slots]
EmitScenario == Finished' => PrintT("SCN " \o ToJson([lay |-> lay0, evs |-> [k \in 1..Len(hist') |-> Slim(hist'[k])]]))
=============================================================================
