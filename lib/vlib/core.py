"""Engine room: paths, hashing, TLC / cargo invocation, sharded replay + trace validation, evidence."""
import sys, os, json, subprocess, hashlib, time, shutil, re, glob, random
import concurrent.futures as cf

VERIF = os.path.abspath(os.path.join(os.path.dirname(__file__), '..', '..'))
REPO = os.environ.get('VERIF_REPO', '/repo')
OUT = os.path.join(VERIF, 'out')
SPEC = os.path.join(VERIF, 'spec')
HARNESS = os.path.join(VERIF, 'harness')
EVID = os.path.join(VERIF, 'evidence')
TLA_CP = '/opt/veriftools/tla/tla2tools.jar:/opt/veriftools/tla/CommunityModules-deps.jar'
NJOBS = int(os.environ.get('VERIF_JOBS', '14'))


class ToolError(Exception):
    pass


def log(*a):
    print(*a, flush=True)


def sha(*chunks):
    h = hashlib.sha256()
    for c in chunks:
        h.update(c if isinstance(c, bytes) else str(c).encode())
        h.update(b'\0')
    return h.hexdigest()[:16]


def file_sha(path):
    h = hashlib.sha256()
    with open(path, 'rb') as f:
        for blk in iter(lambda: f.read(1 << 20), b''):
            h.update(blk)
    return h.hexdigest()[:16]


def spec_hash(names=None):
    files = sorted(glob.glob(os.path.join(SPEC, '*.tla')) + glob.glob(os.path.join(SPEC, '*.cfg')) +
                   glob.glob(os.path.join(SPEC, '*.tmpl')))
    if names:
        files = [f for f in files if os.path.basename(f) in names]
    return sha(*[open(f, 'rb').read() for f in files])


def lib_hash():
    files = sorted(glob.glob(os.path.join(VERIF, 'lib', 'vlib', '*.py')))
    return sha(*[open(f, 'rb').read() for f in files])


def ensure(d):
    os.makedirs(d, exist_ok=True)
    return d


# ------------------------------------------------------------------------------------------------
# TLC

def java_tlc(args, cwd=SPEC, env=None, timeout=3600, heap='3g', trace_mode=False, workers=None):
    """run TLC; returns (exit code, stdout text)"""
    serial = trace_mode or ('-workers' in args and args[args.index('-workers') + 1] == '1')
    jopts = (['-XX:+UseSerialGC'] if serial else ['-XX:+UseParallelGC', '-XX:ParallelGCThreads=4']) + \
            ['-Xmx' + heap, '-Xss256m', '-XX:TieredStopAtLevel=1']
    if trace_mode:
        jopts.append('-Dtlc2.tool.queue.IStateQueue=StateDeque')
    # TLC unpacks the standard modules into java.io.tmpdir on every run and leaves them there: give every run a
    # temporary directory of its own and remove it afterwards (nothing is left under /tmp)
    import tempfile, threading
    tmpd = tempfile.mkdtemp(prefix='jtmp_', dir=ensure(os.path.join(OUT, 'work')))
    cmd = ['java'] + jopts + ['-Djava.io.tmpdir=' + tmpd, '-cp', TLA_CP, 'tlc2.TLC'] + args
    e = dict(os.environ)
    e.pop('JAVA_TOOL_OPTIONS', None)
    if env:
        e.update(env)
    try:
        p = subprocess.run(cmd, cwd=cwd, env=e, stdout=subprocess.PIPE, stderr=subprocess.STDOUT, timeout=timeout)
    except subprocess.TimeoutExpired:
        raise ToolError('TLC timed out: ' + ' '.join(args))
    finally:
        shutil.rmtree(tmpd, ignore_errors=True)
    return p.returncode, p.stdout.decode('utf-8', 'replace')


def tlc_stats(text):
    m = re.search(r'(\d+) states generated, (\d+) distinct states found', text)
    if not m:
        return None
    return {'generated': int(m.group(1)), 'distinct': int(m.group(2))}


def tlc_actions(text):
    """per-action (distinct:generated) counts from -coverage output"""
    acts = {}
    for m in re.finditer(r'^<(\w+) line \d+, col \d+ to line \d+, col \d+ of module (\w+)>: (\d+):(\d+)', text, re.M):
        acts[m.group(1)] = (int(m.group(3)), int(m.group(4)))
    return acts


# ------------------------------------------------------------------------------------------------
# harness builds

FEATS = {
    'default': {'args': [], 'toolchain': None},
    'eio': {'args': ['--features', 'eio'], 'toolchain': None},
    'eio-async': {'args': ['--features', 'eio-async'], 'toolchain': None},
    'eio-both': {'args': ['--features', 'eio,eio-async'], 'toolchain': None},
    'unstable': {'args': ['--features', 'unstable'], 'toolchain': '+nightly'},
}


def build_harness(feat='default', quiet=True):
    """(re)build the harness against the current /repo working tree; returns the binary path"""
    cfg = FEATS[feat]
    tdir = os.path.join(HARNESS, 'target', feat)
    extra = []
    if REPO != '/repo':
        # VERIF_REPO=<dir>: check a copy of the repository (e.g. a scratch worktree with a seeded change) instead
        # of /repo itself: cargo's `paths` override replaces the path dependency, in a target directory of its own
        tdir = os.path.join(HARNESS, 'target', feat + '-' + sha(REPO))
        extra = ['--config', 'paths=["%s"]' % REPO]
    cmd = ['cargo'] + ([cfg['toolchain']] if cfg['toolchain'] else []) + ['build', '--offline', '--target-dir', tdir] + extra + cfg['args']
    env = dict(os.environ)
    env['CARGO_NET_OFFLINE'] = 'true'
    t0 = time.time()
    p = subprocess.run(cmd, cwd=HARNESS, env=env, stdout=subprocess.PIPE, stderr=subprocess.STDOUT)
    out = p.stdout.decode('utf-8', 'replace')
    if p.returncode != 0:
        return None, out
    binp = os.path.join(tdir, 'debug', 'cbv')
    if not quiet:
        log('built harness [%s] in %.1fs' % (feat, time.time() - t0))
    return binp, out


# ------------------------------------------------------------------------------------------------
# replay + validation of one scenario file, sharded

FAIL_RE = re.compile(r'^"FAIL (\{.*\})"$')


def parse_fail_lines(text):
    fails = []
    for line in text.splitlines():
        m = FAIL_RE.match(line.strip())
        if m:
            js = m.group(1).encode().decode('unicode_escape')
            try:
                fails.append(json.loads(js))
            except Exception:
                pass
    return fails


def run_shard(binp, scen_path, work, idx):
    """execute one shard with the harness, validate its trace with TLC; returns a result dict"""
    trace = os.path.join(work, 'trace_%d.ndjson' % idx)
    prog = os.path.join(work, 'progress_%d' % idx)
    digf = os.path.join(work, 'digest_%d' % idx)
    res = {'shard': idx, 'scen': scen_path, 'trace': trace, 'crash': None, 'fails': [], 'events': 0, 'consumed': 0, 'digests': {}}
    # a hang of the code under test is a scenario that makes no progress: the harness rewrites the progress file at the
    # start of every scenario (a few ms each); wall-clock time of the whole shard says nothing on a loaded machine
    stall = int(os.environ.get('VERIF_STALL_TIMEOUT', os.environ.get('VERIF_SHARD_TIMEOUT', '90')))
    errf = os.path.join(work, 'stderr_%d' % idx)
    with open(errf, 'wb') as ef:
        proc = subprocess.Popen([binp, 'run', scen_path, trace, '--progress', prog, '--digest', digf], stdout=subprocess.DEVNULL, stderr=ef)
        last, since, rc = None, time.time(), None
        while True:
            try:
                rc = proc.wait(timeout=0.5)
                break
            except subprocess.TimeoutExpired:
                pass
            try:
                cur = open(prog).read() if os.path.exists(prog) else ''
            except OSError:
                cur = last
            if cur != last:
                last, since = cur, time.time()
            elif time.time() - since > stall and (last or time.time() - since > 10 * stall):
                proc.kill()
                proc.wait()
                rc = -999 if last else -998
                break
    err = open(errf, 'rb').read()[-2000:].decode('utf-8', 'replace')
    if rc == -998:
        res['tool_error'] = 'the harness process did not start executing scenarios within %d s (machine overloaded?)' % (10 * stall)
        return res
    if rc != 0:
        # the code under test killed the process (abort, segfault) or hung: find the scenario
        cur = open(prog).read().strip() if os.path.exists(prog) else ''
        res['crash'] = {'rc': rc, 'stderr': err, 'at': cur, 'what': 'timeout (no progress within %d s in this scenario)' % stall if rc == -999 else 'process died'}
        try:
            ln = int(cur.split()[0])
            res['crash']['scenario'] = open(scen_path).read().splitlines()[ln]
        except Exception:
            pass
    if os.path.exists(digf):
        for line in open(digf):
            a = line.split()
            if len(a) >= 2:
                res['digests'][a[0]] = a[1]
            if len(a) >= 3:
                res.setdefault('digests2', {})[a[0]] = a[2]
    if not os.path.exists(trace) or os.path.getsize(trace) == 0:
        return res
    # validate whatever was recorded (a crashed run leaves a prefix: truncate to the last complete scenario)
    if res['crash']:
        lines = open(trace, 'rb').read().split(b'\n')
        keep, last_end = [], 0
        for i, l in enumerate(lines):
            if l.startswith(b'{"e":"end"'):
                last_end = i + 1
        keep = lines[:last_end]
        with open(trace, 'wb') as f:
            f.write(b'\n'.join(keep) + (b'\n' if keep else b''))
        if not keep:
            return res
    res['events'] = sum(1 for _ in open(trace, 'rb'))
    md = os.path.join(work, 'md_%d' % idx)
    for attempt in range(3):
        # a JVM that dies before it reports (killed under memory pressure) is retried; a report is never retried
        rc, out = java_tlc(['-workers', '1', '-metadir', md, '-cleanup', '-noGenerateSpecTE', '-config', 'Trace.cfg', 'Trace.tla'],
                           env={'TRACE': trace}, trace_mode=True, heap='2g', timeout=int(os.environ.get('VERIF_TLC_TIMEOUT', '3600')))
        shutil.rmtree(md, ignore_errors=True)
        m = re.search(r'<<"CONSUMED", (\d+), (\d+), "FAILED-CLAUSES", (\d+)>>', out)
        if m or 'Error' in out:
            break
        time.sleep(5 * (attempt + 1))
    if not m:
        res['tool_error'] = out[-3000:]
        return res
    res['consumed'] = int(m.group(1))
    if int(m.group(1)) != int(m.group(2)):
        res['tool_error'] = 'TLC consumed %s of %s events\n' % (m.group(1), m.group(2)) + out[-2000:]
    res['fails'] = parse_fail_lines(out)
    res['tlc_states'] = tlc_stats(out)
    return res


def run_scenarios(scen_lines, feat='default', tag='run', keep=False):
    """scen_lines: list of JSON strings (one scenario each). Returns aggregated result dict."""
    binp, bout = build_harness(feat)
    if binp is None:
        return {'build_failed': True, 'build_output': bout, 'feat': feat}
    work = ensure(os.path.join(OUT, 'work', '%s.%d' % (tag, os.getpid())))
    # at most NJOBS shards run at a time; a shard is bounded (the validating JVM reads its whole trace: 15 000 scenarios
    # are about 250 000 events, comfortable in a 2 GB heap - a thorough unit of 700 000 scenarios in 10 shards was not)
    shard_max = int(os.environ.get('VERIF_SHARD_MAX', '15000'))
    nsh = max(1, min(NJOBS, len(scen_lines) // 40 + 1), -(-len(scen_lines) // shard_max))
    shards = [[] for _ in range(nsh)]
    for i, l in enumerate(scen_lines):
        shards[i % nsh].append(l)
    paths = []
    for i, sh in enumerate(shards):
        pth = os.path.join(work, 'scen_%d.ndjson' % i)
        with open(pth, 'w') as f:
            f.write('\n'.join(sh) + '\n')
        paths.append(pth)
    t0 = time.time()
    with cf.ThreadPoolExecutor(max_workers=min(nsh, NJOBS)) as ex:
        results = list(ex.map(lambda a: run_shard(binp, a[1], work, a[0]), enumerate(paths)))
    agg = {'feat': feat, 'shards': nsh, 'scenarios': len(scen_lines), 'events': sum(r['events'] for r in results),
           'fails': [], 'crashes': [], 'tool_errors': [], 'wall_s': time.time() - t0, 'work': work,
           'bin_sha': file_sha(binp), 'tlc_states': sum((r.get('tlc_states') or {}).get('distinct', 0) for r in results),
           'tlc_transitions': sum((r.get('tlc_states') or {}).get('generated', 0) for r in results)}
    agg['digests'] = {}
    agg['digests2'] = {}
    for r in results:
        agg['digests'].update(r.get('digests', {}))
        agg['digests2'].update(r.get('digests2', {}))
        for f in r['fails']:
            f['shard'] = r['shard']
            agg['fails'].append(f)
        if r.get('crash'):
            agg['crashes'].append(dict(r['crash'], shard=r['shard']))
        if r.get('tool_error'):
            agg['tool_errors'].append(r['tool_error'])
    return agg


def scenario_trace(work, shard, scn_id):
    """the recorded events of one scenario (for replay files)"""
    out = []
    pth = os.path.join(work, 'trace_%d.ndjson' % shard)
    if not os.path.exists(pth):
        return out
    needle = '"scn":"%s"' % scn_id
    for line in open(pth):
        if needle in line:
            out.append(line.rstrip('\n'))
    return out


def scenario_line(work, shard, scn_id):
    pth = os.path.join(work, 'scen_%d.ndjson' % shard)
    needle = '"id": "%s"' % scn_id
    needle2 = '"id":"%s"' % scn_id
    for line in open(pth):
        if needle in line or needle2 in line:
            return line.rstrip('\n')
    return None


# ------------------------------------------------------------------------------------------------
def write_evidence(pid, ev):
    ensure(EVID)
    with open(os.path.join(EVID, pid + '.json'), 'w') as f:
        json.dump(ev, f, indent=1, sort_keys=True)
        f.write('\n')


def main(argv):
    from . import checks
    if not argv:
        print(__doc__)
        return 2
    cmd = argv[0]
    try:
        if cmd == 'setup':
            return checks.setup(argv[1:])
        if cmd == 'check':
            tier = os.environ.get('VERIF_TIER', 'quick')
            if '--tier' in argv:
                tier = argv[argv.index('--tier') + 1]
            return checks.check(argv[1], tier)
        if cmd == 'replay':
            return checks.replay(argv[1])
        if cmd == 'selftest':
            return checks.selftest(argv[1:])
        if cmd == 'gen':
            return checks.gen(argv[1:])
    except ToolError as e:
        log('TOOL-ERROR: %s' % e)
        return 2
    print('unknown command', cmd)
    return 2
