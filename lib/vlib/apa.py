"""Apalache obligations (symbolic, all capacities up to 2^64-1). Filled in with WordArith / Shape."""


def run_all(tier):
    return []
