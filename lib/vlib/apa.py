"""Apalache obligations: symbolic (SMT) checks for ALL capacities up to 2^64-1 of the integer-only modules
spec/WordArith.tla (add_mod lemma) and spec/Shape.tla (scalar inductive step). They depend only on the
specification, so results are cached by spec hash; sanity mutants must be refuted."""
import os, re, json, time, shutil, subprocess
import concurrent.futures as cf
from . import core
from .core import OUT, SPEC

OBLIGATIONS = [
    # name, module, extra args, expected outcome
    ('wordarith_lemma', 'WordArith.tla', ['--inv=Lemma', '--length=0'], 'NoError'),
    ('wordarith_mutant_no_plus_one', 'WordArith.tla', ['--inv=MutantNoPlusOne', '--length=0'], 'Error'),
    ('wordarith_mutant_no_overflow', 'WordArith.tla', ['--inv=MutantNoOverflow', '--length=0'], 'Error'),
    ('shape_inductive_step', 'Shape.tla', ['--init=IndInit', '--inv=Inv', '--length=1'], 'NoError'),
    ('shape_mutant_push_front', 'Shape.tla', ['--init=IndInit', '--next=NextBadPushFront', '--inv=Inv', '--length=1'], 'Error'),
    ('shape_mutant_two_fill_iterations', 'Shape.tla', ['--init=IndInit', '--next=NextBadFill', '--inv=Inv', '--length=1'], 'Error'),
]


def run_one(ob):
    name, mod, args, expect = ob
    key = core.sha(core.spec_hash([mod]), name, ' '.join(args))
    cdir = core.ensure(os.path.join(OUT, 'cache'))
    cpath = os.path.join(cdir, 'apa_%s_%s.json' % (name, key))
    if os.path.exists(cpath) and os.environ.get('VERIF_NOCACHE') != '1':
        r = json.load(open(cpath))
        r['cached'] = True
        return r
    odir = os.path.join(OUT, 'work', 'apa_%s_%d' % (name, os.getpid()))
    t0 = time.time()
    try:
        env = dict(os.environ, JVM_ARGS=(os.environ.get('JVM_ARGS', '') + ' -Djava.io.tmpdir=' + core.ensure(odir + '_tmp')).strip())
        p = subprocess.run(['apalache-mc', 'check'] + args + ['--out-dir=' + odir, os.path.join(SPEC, mod)], env=env,
                           cwd=core.ensure(os.path.join(OUT, 'work')), stdout=subprocess.PIPE, stderr=subprocess.STDOUT, timeout=900)
        out = p.stdout.decode('utf-8', 'replace')
    except subprocess.TimeoutExpired:
        out = 'TIMEOUT'
    shutil.rmtree(odir, ignore_errors=True)
    shutil.rmtree(odir + '_tmp', ignore_errors=True)
    m = re.search(r'The outcome is: (\w+)', out)
    outcome = m.group(1) if m else 'Unknown'
    r = {'name': name, 'module': mod, 'cmd': 'apalache-mc check ' + ' '.join(args) + ' ' + mod, 'expected': expect, 'outcome': outcome,
         'ok': outcome == expect, 'wall_s': round(time.time() - t0, 1), 'cached': False}
    if not r['ok']:
        r['tail'] = out[-1500:]
    else:
        json.dump(r, open(cpath, 'w'))
    return r


def run_all(tier):
    with cf.ThreadPoolExecutor(max_workers=3) as ex:
        return list(ex.map(run_one, OBLIGATIONS))
