"""Per-property checks: which scenario units decide a property, how failures map to verdicts, evidence."""
import os, sys, json, time, random, shutil, glob, subprocess, re
from . import core, scen
from .core import OUT, VERIF, SPEC, log, ToolError

KNOWN = os.path.join(VERIF, 'known_findings.json')


def seed():
    try:
        return int(os.environ.get('VERIF_SEED', '1'))
    except ValueError:
        return 1


# ------------------------------------------------------------------------------------------------
# units: a unit is a scenario set + build configuration; its result is cached by content hash of
# everything it depends on (harness binary built from the current /repo tree, scenarios, spec, lib)

def ring_ns(tier):
    return [0, 1, 2, 3, 4] if tier == 'quick' else [0, 1, 2, 3, 4, 5]


def ring_raws(n):
    """raw scenario files for capacity n (the largest capacity is generated family by family)"""
    if n <= 4:
        return [scen.ring_raw(n), scen.ring_raw(n, families=['conv', 'faults', 'provided'])]
    return [scen.ring_raw(n, families=['conv', 'faults', 'provided'])] + [scen.ring_raw(n, families=f) for f in (['single', 'positional', 'bulk', 'access', 'ctor', 'faults'],
                                                    ['fill', 'extend', 'faults'], ['drain', 'faults', 'provided'], ['iter', 'provided'])]


WIDE_FAMILIES = ['single', 'positional', 'bulk', 'access']


def wide_ns(tier):
    """larger capacities, basic operation families only (no faults, no views)"""
    return [5, 6, 8] if tier == 'quick' else [6, 7, 8]


def ring_scenarios(tier, variant='plain', want=None, wide=False):
    """(list of scenario dicts, list of L1 stats)"""
    out, stats = [], []
    for n in ring_ns(tier) + (wide_ns(tier) if wide else []):
        k = 0
        for raw, st in (ring_raws(n) if n in ring_ns(tier) else [scen.ring_raw(n, families=WIDE_FAMILIES)]):
            stats.append(st)
            for r in scen.load_raw(raw):
                k += 1
                tags = scen.tags_of(r)
                if want and not want(tags, r):
                    continue
                for mode in scen.byval_variants(r, tier):
                    sfx = '-m%d' % mode if mode else ''
                    if variant == 'plain':
                        out.append(scen.build(r, 'r%d-%d%s' % (n, k, sfx), mode=mode))
                    else:
                        route, pat = variant.split(':')
                        out.append(scen.build(r, 'r%d-%d-%s-%s%s' % (n, k, route, pat, sfx), route=route, poison=pat, mode=mode))
    if wide and variant == 'plain':
        for n in (6, 7, 8):
            out += [sc for sc in scen.wide_drains(n) if not want or want(set(sc['tags']), {'evs': [{'op': 'drain'}]})]
    return out, stats


def cache_get(key):
    p = os.path.join(OUT, 'cache', key + '.json')
    if os.path.exists(p) and os.environ.get('VERIF_NOCACHE') != '1':
        try:
            return json.load(open(p))
        except Exception:
            return None
    return None


def cache_put(key, val):
    core.ensure(os.path.join(OUT, 'cache'))
    p = os.path.join(OUT, 'cache', key + '.json')
    json.dump(val, open(p + '.tmp', 'w'))
    os.replace(p + '.tmp', p)


def run_unit(name, scenarios, feat='default'):
    """run a scenario set against the current tree; cached"""
    lines = [json.dumps(s, separators=(',', ':')) for s in scenarios]
    binp, bout = core.build_harness(feat)
    if binp is None:
        return {'build_failed': True, 'build_output': bout, 'feat': feat, 'scenarios': len(lines), 'fails': [], 'crashes': [],
                'tool_errors': [], 'events': 0, 'wall_s': 0, 'tlc_states': 0, 'tlc_transitions': 0, 'name': name}
    key = core.sha(name, feat, core.file_sha(binp), core.sha(*lines), core.spec_hash(['Contract.tla', 'Trace.tla', 'Trace.cfg']),
                   core.lib_hash())
    hit = cache_get(key)
    if hit is not None:
        hit['cached'] = True
        return hit
    agg = core.run_scenarios(lines, feat=feat, tag=name)
    agg['name'] = name
    # attach what is needed to write replay files later, then drop the bulky work dir
    by_scn = {}
    for f in agg['fails']:
        by_scn.setdefault((f['shard'], f['scn']), []).append(f)
    agg['failing'] = []
    # one pass over each shard's files (a change that breaks nearly every scenario makes this list very long)
    want = {}
    for (shard, sid) in by_scn:
        want.setdefault(shard, set()).add(sid)
    lines_of, traces_of = {}, {}
    scn_re = re.compile(r'"scn":"([^"]*)"')
    for shard, ids in want.items():
        pth = os.path.join(agg['work'], 'scen_%d.ndjson' % shard)
        if os.path.exists(pth):
            for line in open(pth):
                try:
                    sid = json.loads(line).get('id')
                except Exception:
                    continue
                if sid in ids:
                    lines_of[(shard, sid)] = line.rstrip('\n')
        pth = os.path.join(agg['work'], 'trace_%d.ndjson' % shard)
        if os.path.exists(pth):
            for line in open(pth):
                m = scn_re.search(line)
                if m and m.group(1) in ids:
                    t = traces_of.setdefault((shard, m.group(1)), [])
                    if len(t) < 400:
                        t.append(line.rstrip('\n'))
    for (shard, sid), fl in by_scn.items():
        agg['failing'].append({'scn': sid, 'fails': fl, 'scenario': lines_of.get((shard, sid)),
                               'trace': traces_of.get((shard, sid), []) if len(agg['failing']) < 2000 else []})
    shutil.rmtree(agg['work'], ignore_errors=True)
    agg['cached'] = False
    cache_put(key, agg)
    return agg


# ------------------------------------------------------------------------------------------------
def load_known():
    if not os.path.exists(KNOWN):
        return {'findings': [], 'fixed': []}
    return json.load(open(KNOWN))


def match_known(pid, failing, known):
    """is this failing scenario one of the listed known findings for property pid?"""
    for k in known.get('findings', []):
        if k['property'] != pid:
            continue
        m = k.get('match', {})
        ok = True
        sc = json.loads(failing['scenario']) if failing.get('scenario') else {}
        for f in failing['fails']:
            labels = [l[1] for l in f['f'] if pid in l[0].split(',')]
            if not labels:
                continue
            if 'op' in m and f['op'] not in m['op']:
                ok = False
            if 'labels' in m and not set(labels) <= set(m['labels']):
                ok = False
        if 'n' in m and sc.get('n') not in m['n']:
            ok = False
        if 'tags' in m and not set(m['tags']) <= set(sc.get('tags', [])):
            ok = False
        if ok:
            return k
    return None


def labels_for(pid, f):
    return [l[1] for l in f['f'] if pid in l[0].split(',')]


def judge(pid, units, tier, t0, level, coverage_extra, assumptions, relevant=None):
    """turn unit results into verdict lines, replay files, evidence; returns exit code"""
    known = load_known()
    viol, knownhit, tool = [], [], []
    nscen = nev = 0
    states = trans = 0
    samples = []
    others = {}
    for u in units:
        if u.get('build_failed'):
            tool.append('harness build failed for configuration %s:\n%s' % (u['feat'], u['build_output'][-1500:]))
            continue
        nscen += u['scenarios']
        nev += u['events']
        states += u.get('tlc_states', 0)
        trans += u.get('tlc_transitions', 0)
        for te in u.get('tool_errors', []):
            tool.append(te)
        for c in u.get('crashes', []):
            # a dead or hung process is a violation of C11 (every call returns) and of the property the scenario
            # exercises; for any other property the run is incomplete: no verdict
            if not c.get('scenario'):
                # no scenario to attribute it to (the process never got to one): nothing to replay, not a verdict
                tool.append('the harness process died (rc=%s) outside any scenario: %s' % (c.get('rc'), (c.get('stderr') or '')[-500:]))
                continue
            try:
                sc = json.loads(c.get('scenario') or '{}')
                tg = set(sc.get('tags', []))
                mine = pid == 'C11' or pid not in RING_WANT or bool(RING_WANT[pid](tg, {'evs': [{'op': sc.get('first_op', '')}]}))
            except Exception:
                mine = True
            if not mine:
                tool.append('the harness process died or hung in scenario %s (%s); C11 and the properties that scenario exercises report it' % (c.get('at'), c.get('what')))
                continue
            viol.append({'scn': 'crash:' + str(c.get('at')), 'labels': ['%s rc=%s' % (c.get('what', 'process_died'), c.get('rc'))], 'op': '?',
                         'failing': {'scn': c.get('at'), 'fails': [], 'scenario': c.get('scenario'), 'trace': [], 'crash': c}})
        for fl in u.get('failing', []):
            mine = []
            for f in fl['fails']:
                ls = labels_for(pid, f)
                if ls:
                    mine.append((f['op'], ls))
                for l in f['f']:
                    if pid not in l[0].split(','):
                        others[l[0]] = others.get(l[0], 0) + 1
            if not mine:
                continue
            k = match_known(pid, fl, known)
            if k:
                knownhit.append((k, fl))
            else:
                viol.append({'scn': fl['scn'], 'labels': sorted(set(x for _, ls in mine for x in ls)), 'op': mine[0][0], 'failing': fl})
    rc = 0
    for k in {json.dumps(k[0], sort_keys=True) for k in knownhit}:
        kk = json.loads(k)
        log('KNOWN-FINDING: property=%s %s' % (pid, kk.get('what', '')))
    if tool and not viol:
        for t in tool[:3]:
            log('TOOL-ERROR: ' + t[:3000])
        rc = 2
    vdir = core.ensure(os.path.join(OUT, 'violations', pid))
    seen = 0
    for v in viol:
        path = os.path.join(vdir, re.sub(r'[^A-Za-z0-9_.-]', '_', str(v['scn'])) + '.json')
        if seen >= 200:         # replay files for the first 200 violating scenarios; the rest are counted
            seen += 1
            continue
        json.dump({'property': pid, 'scenario': json.loads(v['failing']['scenario']) if v['failing'].get('scenario') else None,
                   'labels': v['labels'], 'fails': v['failing']['fails'], 'trace': v['failing'].get('trace'),
                   'crash': v['failing'].get('crash'),
                   'replay_cmd': 'bin/verif replay ' + path}, open(path, 'w'), indent=1)
        if seen < 12:
            log('VIOLATION property=%s replay=%s  (%s in %s: %s)' % (pid, path, v['op'], v['scn'], ','.join(v['labels'])))
        seen += 1
        rc = 1
    if seen > 12:
        log('... %d more violations of %s (replay files under %s)' % (seen - 12, pid, vdir))
    drift = others.get('DRIFT', 0)
    if others.get('DRIFT'):
        log('DRIFT: %d scenarios did not reach the physical layout the model aimed for (the implementation places elements '
            'differently than spec/Ring.tla predicts; verdicts are unaffected, layout coverage is reduced)' % others['DRIFT'])
    others.pop('DRIFT', None)
    if others and rc == 0:
        log('NOTE: clauses of other properties failed in these runs (reported by their own checks): %s' % json.dumps(others))
    cov = {'states': max(states, 1) if level == 'model_checking' else states, 'transitions': max(trans, 1),
           'traces_validated_against_impl': nscen, 'events_validated': nev, 'exhaustive': True}
    cov['layout_drift_scenarios'] = drift
    cov.update(coverage_extra)
    ev = {'property_id': pid, 'tier': tier, 'seed': seed(), 'level': level, 'coverage': cov, 'assumptions': assumptions,
          'wall_s': round(time.time() - t0, 2), 'violations': seen,
          'known_findings_hit': len(knownhit), 'reused_cached_unit_results': [u.get('name') for u in units if u.get('cached')]}
    core.write_evidence(pid, ev)
    log('%s [%s]: %d scenarios, %d events validated by TLC against the contract, %d violations, %.1fs'
        % (pid, tier, nscen, nev, seen, time.time() - t0))
    return rc


# ------------------------------------------------------------------------------------------------
COMMON_ASSUME = [
    'TLC, the JSON module of the TLA+ CommunityModules, rustc/cargo and the harness crate (harness/src) are trusted',
    'exhaustive parts are bounded: capacities listed in coverage.bounds; one injected fault per scenario',
    'unit results are reused between property checks when the harness binary (rebuilt from the current /repo tree), '
    'the scenario set, the specification and the orchestrator are byte-identical',
]


def sample_of(scs, k=3):
    rnd = random.Random(seed())
    pick = rnd.sample(scs, min(k, len(scs))) if scs else []
    return [{'id': s['id'], 'n': s['n'], 'tags': s['tags'], 'steps': s['steps'][-6:]} for s in pick]


def l1_cov(stats):
    return {'layouts_reachable_from_new': {str(n): scen.reach(n) for n in sorted({s['n'] for s in stats if s['n'] <= 5 and s.get('maxu', 1 << 30) > 100})},
            'l1_states': sum(s['states'] for s in stats), 'l1_transitions': sum(s['transitions'] for s in stats),
            'l1_actions': {str(s['n']): s['actions'] for s in stats},
            'bounds': {'capacities': [s['n'] for s in stats], 'max_arg_len': [s['maxarg'] for s in stats]}}


RING_WANT = {
    'C01': lambda t, r: not (t & {'fault_drop', 'fault_user', 'forget'}) and (t & {'single', 'positional', 'bulk', 'fill', 'extend', 'drain'}),
    'C02': lambda t, r: r['evs'][0]['op'] in ('push_back', 'push_front', 'try_push_back', 'try_push_front'),
    'C03': lambda t, r: not (t & {'fault_drop', 'fault_user', 'forget'}),
    'C05': lambda t, r: 'fault_drop' in t,
    'C06': lambda t, r: 'fault_user' in t,
    'C07': lambda t, r: not (t & {'fault_drop', 'fault_user', 'forget'}),
    'C08': lambda t, r: 'iter' in t or (r['evs'][0]['op'] == 'into_iter' and not (t & {'fault_drop'})),
    'C09': lambda t, r: 'drain' in t and not (t & {'forget', 'fault_drop'}),
    'C10': lambda t, r: 'forget' in t,
    'C11': lambda t, r: not (t & {'fault_drop', 'fault_user'}),
    'C12': lambda t, r: (t & {'ctor', 'conv'}) and not (t & {'fault_drop', 'fault_user'}),
    'C17': lambda t, r: not (t & {'fault_drop', 'fault_user'}),
    'C20': lambda t, r: not (t & {'fault_drop', 'fault_user', 'forget'}),
}


FAULTY = lambda t: bool(t & {'fault_drop', 'fault_user'})


def check_ring(pid, tier, t0):
    """Two shared units serve all ring-based properties: every TLC-enumerated behaviour without an injected
    fault, and every behaviour with one. A property's verdict looks at its own clause labels in the unit(s)
    that can exhibit them; its evidence counts the scenarios that exercise it."""
    want = RING_WANT[pid]
    fault_prop = pid in ('C05', 'C06')
    if fault_prop:
        scs, stats = ring_scenarios(tier, 'plain', lambda t, r: FAULTY(t))
        u = run_unit('ring-fault-%s' % tier, scs)
    else:
        scs, stats = ring_scenarios(tier, 'plain', lambda t, r: not FAULTY(t), wide=True)
        scs.append(dict(scen.DEFAULT_ITERS))
        for n in (0, 1, 2, 3, 4):
            scs += scen.clone_scripts(n)
        u = run_unit('ring-nofault-%s' % tier, scs)
    rs = random_scenarios(tier, fault_prop)
    ur = run_unit('rand-%s-%s-%d' % ('fault' if fault_prop else 'nofault', tier, seed()), rs)
    hist_units = []
    if not fault_prop:
        # multi-call behaviours of L1 from new() (TLC simulation, history mode), replayed like the one-shot ones
        hs, hstats = history_scenarios(tier)
        hist_units.append(run_unit('ring-history-%s-%d' % (tier, seed()), hs))
    rel = [s for s in scs if want(set(s['tags']), {'evs': [{'op': s['first_op']}]})]
    cov = l1_cov(stats)
    cov['random_histories'] = {'scenarios': len(rs), 'capacities': RAND_NS, 'length': 80, 'seed': seed(),
                               'note': 'seeded random client programs over up to three buffers and two views (all operations, out-of-range and usize::MAX arguments, '
                                       'partial view consumption, poisoning%s); validated against the contract only' % (', injected faults, forgotten drains' if fault_prop else '')}
    cov['states_note'] = 'states/transitions = TLC trace-validation runs; l1_* = exhaustive TLC run of spec/Ring.tla (refinement L1 => L0 checked on every transition)'
    cov['samples'] = sample_of(rel)
    cov['scenario_tags'] = tag_hist(rel)
    cov['scenarios_exercising_this_property'] = len(rel)
    cov['scenarios_in_unit'] = len(scs)
    units = [u, ur] + hist_units
    if hist_units:
        cov['l1_histories'] = [{k: st[k] for k in ('n', 'behaviours_simulated', 'scenarios', 'calls_per_behaviour', 'states', 'seed')} for st in hstats]
    if pid == 'C10':
        # forgotten drains also occur in the random histories with faults
        rf = random_scenarios(tier, True)
        units.append(run_unit('rand-fault-%s-%d' % (tier, seed()), rf))
    if pid == 'C06':
        # a panicking element comparison inside ==, <, partial_cmp, cmp (pairs of buffers from spec/Observers.tla)
        top = 2 if tier == 'quick' else 3
        obf = []
        for n in range(0, top + 1):
            for m in range(0, top + 1):
                raw, st = scen.obs_raw(n, m)
                for k, pair in enumerate(scen.load_raw(raw)):
                    if min(len(pair['a']['vals']), len(pair['b']['vals'])) > 0:
                        obf.append(scen.obs_fault_build(pair, 'obf%d_%d-%d' % (n, m, k), k))
        units.append(run_unit('obs-fault-%s' % tier, obf))
    build_viol = []
    if pid == 'C17':
        # byte buffers through std::io (every provided method the traits offer is a call the crate may override)
        ios, iostats = io_scenarios(tier, ['std'])
        units.append(run_unit('io-std-%s-%d' % (tier, seed()), ios))
        # the second sentence of the property is a fact about builds, outside any model: build the crate in the two
        # configurations and read the crates its library links against from the metadata
        cov['feature_builds'] = crate_config_builds()
        build_viol = [b for b in cov['feature_builds'] if not b['ok']]
    if pid == 'C11':
        # byte buffers: no stream call panics, for any argument (consume(usize::MAX), destinations longer than the contents)
        ios, iostats = io_scenarios(tier, ['std'])
        units.append(run_unit('io-std-%s-%d' % (tier, seed()), ios))
    if pid == 'C12':
        # constructors and conversions under injected faults (their ownership clauses are labelled C12 too)
        fs, fstats = ring_scenarios(tier, 'plain', lambda t, r: FAULTY(t))
        units.append(run_unit('ring-fault-%s' % tier, fs))
    rc = judge(pid, units, tier, t0, 'model_checking', cov, COMMON_ASSUME)
    if build_viol and rc != 2:
        vdir = core.ensure(os.path.join(OUT, 'violations', pid))
        for b in build_viol:
            path = os.path.join(vdir, 'build_%s.json' % b['config'])
            json.dump(dict(b, property=pid, replay_cmd=b['cmd']), open(path, 'w'), indent=1)
            log('VIOLATION property=%s replay=%s  (%s: %s)' % (pid, path, b['config'], b['why']))
        ev = json.load(open(os.path.join(core.EVID, pid + '.json')))
        ev['violations'] = ev.get('violations', 0) + len(build_viol)
        core.write_evidence(pid, ev)
        return 1
    return rc


CRATE_CONFIGS = [('no-default-features', ['--no-default-features'], {'core', 'compiler_builtins'}),
                 ('alloc-only', ['--no-default-features', '--features', 'alloc'], {'core', 'compiler_builtins', 'alloc'})]


def crate_config_builds():
    """build the library itself (nightly, so that `rustc -Zls=root` can list what the rlib links against) with
    default features off and with only `alloc`; a build error or a dependency on std / alloc is a violation"""
    import subprocess
    res = []
    for name, args, allowed in CRATE_CONFIGS:
        tdir = os.path.join(OUT, 'build', 'crate-%s-%s' % (name, core.sha(core.REPO)[:8]))
        cmd = ['cargo', '+nightly', 'build', '--offline', '--lib', '--manifest-path', os.path.join(core.REPO, 'Cargo.toml'), '--target-dir', tdir] + args
        env = dict(os.environ, CARGO_NET_OFFLINE='true')
        p = subprocess.run(cmd, env=env, stdout=subprocess.PIPE, stderr=subprocess.STDOUT)
        out = p.stdout.decode('utf-8', 'replace')
        r = {'config': name, 'cmd': ' '.join(cmd), 'ok': True, 'why': '', 'links': []}
        if p.returncode != 0:
            r.update(ok=False, why='the crate does not build in this configuration', output=out[-3000:])
        else:
            rlib = os.path.join(tdir, 'debug', 'libcircular_buffer.rlib')
            q = subprocess.run(['rustc', '+nightly', '-Zls=root', rlib], stdout=subprocess.PIPE, stderr=subprocess.STDOUT)
            deps = re.findall(r'^\d+ ([A-Za-z0-9_]+)-[0-9a-f]+ hash', q.stdout.decode('utf-8', 'replace'), re.M)
            r['links'] = deps
            if q.returncode != 0 or not deps:
                raise ToolError('cannot read the crate metadata of %s:\n%s' % (rlib, q.stdout.decode('utf-8', 'replace')[-1500:]))
            bad = sorted(set(deps) - allowed)
            if bad:
                r.update(ok=False, why='the library links against %s in this configuration' % ', '.join([d for d in bad if d in ('std', 'alloc')] or bad[:3]))
        res.append(r)
    return res


def history_scenarios(tier):
    out, stats = [], []
    for n in ([2, 3, 4] if tier == 'quick' else [1, 2, 3, 4, 5]):
        raw, st = scen.hist_raw(n, 12 if tier == 'quick' else 150, seed() * 100 + n)
        stats.append(st)
        for k, r in enumerate(scen.load_raw(raw)):
            out.append(scen.build(r, 'h%d-%d' % (n, k)))
    return out, stats


RAND_NS = [1, 2, 3, 5, 8, 16, 33]


def random_scenarios(tier, faults):
    rnd = random.Random(seed() * 2 + (1 if faults else 0))
    per = 100 if tier == 'quick' else 1000
    return [scen.random_history(rnd, n, 'rnd%s%d-%d' % ('f' if faults else '', n, k), 80, faults) for n in RAND_NS for k in range(per)]


def tag_hist(scs):
    h = {}
    for s in scs:
        for t in s['tags']:
            h[t] = h.get(t, 0) + 1
    return h


def check_c04(tier, t0):
    units, all_scs, stats = [], [], []
    want = lambda t, r: not (t & {'fault_drop', 'fault_user', 'forget', 'ctor'})
    variants = ['back:00', 'back:ff', 'front:5a', 'back:stale', 'front:live'] if tier == 'quick' else \
               ['back:00', 'back:ff', 'back:5a', 'back:stale', 'back:live', 'front:00', 'front:ff', 'front:5a', 'front:stale', 'front:live']
    groups = {}
    for vi, v in enumerate(variants):
        # the scripts with provided Iterator methods run under the first garbage variant only
        w2 = want if vi == 0 else (lambda t, r: want(t, r) and 'provided' not in t)
        scs, stats = ring_scenarios(tier, v, w2)
        u = run_unit('ring-C04-%s-%s' % (tier, v), scs)
        units.append(u)
        all_scs += scs[:50]
        d2 = u.get('digests2', {})
        for sc in scs:
            dg = d2.get(sc['id'])
            if dg and dg != '0000000000000000':
                groups.setdefault(sc['grp'], {}).setdefault(dg, []).append(sc)
    # a primitive element type (u8), where slice-at-a-time fast paths exist: Hash / == / cmp / Debug / clone() against
    # a fresh buffer with the same contents, from every layout and in random histories
    ios, iostats = io_scenarios(tier, ['std'])
    units.append(run_unit('io-std-%s-%d' % (tier, seed()), ios))
    # indistinguishability: within a group (same logical contents, same calls; different physical front position, route
    # to the layout, garbage) every run must show the client the same thing
    split = [g for g in groups.values() if len(g) > 1]
    vdir = core.ensure(os.path.join(OUT, 'violations', 'C04'))
    extra_viol = 0
    for k, g in enumerate(split):
        reps = [v[0] for v in g.values()]
        path = os.path.join(vdir, 'indistinguishable_%d.json' % k)
        json.dump({'property': 'C04', 'why': 'the same calls on buffers with equal logical contents gave different observable results',
                   'scenario': reps[0], 'other_scenario': reps[1], 'replay_cmd': 'bin/verif replay ' + path}, open(path, 'w'), indent=1)
        if k < 8:
            log('VIOLATION property=C04 replay=%s  (%s in %s vs %s: observable results depend on layout / history / garbage)'
                % (path, reps[0]['first_op'], reps[0]['id'], reps[1]['id']))
        extra_viol += 1
    cov = l1_cov(stats)
    cov['indistinguishability_groups'] = len(groups)
    cov['indistinguishability_groups_with_several_layouts'] = sum(1 for g in groups.values() if sum(len(v) for v in g.values()) > 1)
    cov['samples'] = sample_of(all_scs)
    cov['garbage_variants'] = variants
    rc = judge('C04', units, tier, t0, 'model_checking', cov, COMMON_ASSUME + [
        'a read of unoccupied storage whose value is then discarded is not observable by this technique (DESIGN.md section 10)'])
    if extra_viol and rc != 2:
        ev = json.load(open(os.path.join(core.EVID, 'C04.json')))
        ev['violations'] = ev.get('violations', 0) + extra_viol
        core.write_evidence('C04', ev)
        return 1
    return rc


def io_scenarios(tier, fams):
    ns = [0, 1, 2, 3] if tier == 'quick' else [0, 1, 2, 3, 4, 5]
    out, stats = [], []
    for n in ns:
        raw, st = scen.ring_raw(n, families=['io'])
        stats.append(st)
        for k, r in enumerate(scen.load_raw(raw)):
            for fam in fams:
                out.append(scen.io_build(r, 'io%d-%d-%s' % (n, k, fam), fam))
            if r['evs'][0]['op'] in ('read', 'fill_buf', 'consume', 'hash', 'read_to_end', 'read_to_string', 'read_until', 'read_vectored'):
                pat = ['00', 'ff', '5a'][k % 3]
                out.append(scen.io_build(r, 'io%d-%d-%s-p%s' % (n, k, fams[k % len(fams)], pat), fams[k % len(fams)], poison=pat))
            if r['evs'][0]['op'] in ('read_to_string', 'hash'):
                # text whose two-byte characters straddle the wrap point of the layout, and bytes that are not text
                for fill in ('u0', 'u1', 'bad'):
                    out.append(scen.io_build(r, 'io%d-%d-%s-%s' % (n, k, fams[0], fill), fams[0], fill=fill))
    rnd = random.Random(seed())
    nrand = 150 if tier == 'quick' else 1500
    for n in [0, 1, 2, 3, 5, 8, 16, 33]:
        for k in range(nrand):
            out.append(scen.io_random(rnd, n, 'iornd%d-%d' % (n, k), fams, 14))
    return out, stats


def check_c14(tier, t0):
    scs, stats = io_scenarios(tier, ['std'])
    u = run_unit('io-std-%s-%d' % (tier, seed()), scs)
    cov = l1_cov(stats)
    cov['samples'] = sample_of(scs)
    cov['families'] = ['std']
    return judge('C14', [u], tier, t0, 'model_checking', cov, COMMON_ASSUME + [
        'random interleavings (depth 14) at capacities 0,1,2,3,5,8,16,33 are sampled, seeded by VERIF_SEED; the per-transition set from every layout is exhaustive'])


def check_c16(tier, t0):
    units = []
    stats = []
    scs = []
    for feat, fams in [('eio', ['eio', 'std']), ('eio-async', ['eio_async', 'std']), ('eio-both', ['eio', 'eio_async', 'std'])]:
        scs, stats = io_scenarios(tier, fams)
        u = run_unit('io-%s-%s-%d' % (feat, tier, seed()), scs, feat=feat)
        if u.get('build_failed'):
            # the crate (or the harness against it) does not build in a configuration the property is about
            path = os.path.join(core.ensure(os.path.join(OUT, 'violations', 'C16')), 'build_%s.log' % feat)
            open(path, 'w').write(u['build_output'])
            log('VIOLATION property=C16 replay=%s  (configuration %s does not build)' % (path, feat))
            core.write_evidence('C16', {'property_id': 'C16', 'tier': tier, 'seed': seed(), 'level': 'model_checking',
                                        'coverage': {'evaluations': 1, 'distinct_nontrivial': 2, 'samples': [feat]},
                                        'wall_s': time.time() - t0, 'violations': 1})
            return 1
        units.append(u)
    cov = l1_cov(stats)
    cov['samples'] = sample_of(scs)
    cov['configurations'] = ['embedded-io', 'embedded-io-async', 'embedded-io + embedded-io-async']
    return judge('C16', units, tier, t0, 'model_checking', cov, COMMON_ASSUME + [
        'equivalence with std::io is established by validating every trait family against the same contract clauses from the same pre-states with the same arguments (the std family is replayed in the same builds)',
        'async methods are polled exactly once with a no-op waker'])


def check_c13(tier, t0):
    top = 3 if tier == 'quick' else 4
    scs, stats = [], []
    for n in range(0, top + 1):
        for m in range(0, top + 1):
            raw, st = scen.obs_raw(n, m)
            stats.append(st)
            for k, pair in enumerate(scen.load_raw(raw)):
                scs.append(scen.obs_build(pair, 'ob%d_%d-%d' % (n, m, k), k))
    u = run_unit('obs-%s' % tier, scs)
    # observers on a primitive element type (u8): what a Hasher is fed, ==, cmp, Debug, clone() against a fresh buffer
    ios, iostats = io_scenarios(tier, ['std'])
    uio = run_unit('io-std-%s-%d' % (tier, seed()), ios)
    cov = {'l1_states': sum(s['states'] for s in stats), 'l1_transitions': sum(s['transitions'] for s in stats),
           'bounds': {'capacity_pairs': '0..%d x 0..%d' % (top, top), 'alphabet': [0, 1]},
           'pairs': len(scs), 'samples': sample_of(scs, 2),
           'states_note': 'l1_* = exhaustive TLC run of spec/Observers.tla (theorem: the segment-wise algorithms equal sequence equality / order / hash feed for every pair of physical states)'}
    return judge('C13', [u, uio], tier, t0, 'model_checking', cov, COMMON_ASSUME + [
        'for byte buffers the sequence of Hasher::write calls (with their boundaries) is compared with that of a fresh buffer holding the same bytes',

        'Debug output is compared with the same formatting of the equivalent slice of payloads, under 11 formatter flag combinations (rotated over the pairs)',
        'hash equality is checked with std DefaultHasher on buffers of equal capacity'])


def check_c18(tier, t0):
    """default build vs nightly build with the `unstable` cargo feature: (i) every trace of the unstable build is
    accepted by the same contract, (ii) the property-level digest of every scenario is identical in both builds"""
    sets = []
    scs, stats = ring_scenarios(tier, 'plain', lambda t, r: not FAULTY(t), wide=True)
    sets.append(('ring-nofault-%s' % tier, scs))
    scs.append(dict(scen.DEFAULT_ITERS))
    for n in (0, 1, 2, 3, 4):
        scs += scen.clone_scripts(n)
    scs2, stats2 = ring_scenarios(tier, 'plain', lambda t, r: FAULTY(t))
    sets.append(('ring-fault-%s' % tier, scs2))
    top = 2 if tier == 'quick' else 3
    obs = []
    for n in range(0, top + 1):
        for m in range(0, top + 1):
            raw, st = scen.obs_raw(n, m)
            for k, pair in enumerate(scen.load_raw(raw)):
                obs.append(scen.obs_build(pair, 'ob%d_%d-%d' % (n, m, k), k))
    sets.append(('obs-c18-%s' % tier, obs))
    viol = []
    units = []
    ncmp = 0
    for name, sc in sets:
        ud = run_unit(name, sc, feat='default')
        uu = run_unit(name, sc, feat='unstable')
        if uu.get('build_failed') or ud.get('build_failed'):
            bad = uu if uu.get('build_failed') else ud
            path = os.path.join(core.ensure(os.path.join(OUT, 'violations', 'C18')), 'build_%s.log' % bad['feat'])
            open(path, 'w').write(bad['build_output'])
            if bad['feat'] == 'unstable':
                log('VIOLATION property=C18 replay=%s  (the crate does not build on nightly with --features unstable)' % path)
                core.write_evidence('C18', {'property_id': 'C18', 'tier': tier, 'seed': seed(), 'level': 'model_checking',
                                            'coverage': {'evaluations': 1, 'distinct_nontrivial': 2, 'samples': ['build']},
                                            'wall_s': time.time() - t0, 'violations': 1})
                return 1
            log('TOOL-ERROR: default harness build failed\n' + bad['build_output'][-2000:])
            return 2
        units.append(uu)
        by_id = {s['id']: s for s in sc}
        dfail = {f['scn']: f for f in ud.get('failing', [])}
        for f in uu.get('failing', []):
            if f['scn'] not in dfail:
                viol.append((f['scn'], 'rejected by the contract only in the unstable build: %s' % sorted({l[1] for x in f['fails'] for l in x['f']}), by_id.get(f['scn'])))
        for sid, dg in ud.get('digests', {}).items():
            ncmp += 1
            if uu.get('digests', {}).get(sid) != dg:
                viol.append((sid, 'results / contents / panics / lifecycle events differ between the default and the unstable build', by_id.get(sid)))
        for c in uu.get('crashes', []):
            viol.append(('crash:' + str(c.get('at')), 'process died in the unstable build rc=%s' % c.get('rc'), None))
        for te in uu.get('tool_errors', []) + ud.get('tool_errors', []):
            log('TOOL-ERROR: ' + te[:2000])
            return 2
    vdir = core.ensure(os.path.join(OUT, 'violations', 'C18'))
    for k, (sid, why, sc) in enumerate(viol):
        path = os.path.join(vdir, re.sub(r'[^A-Za-z0-9_.-]', '_', str(sid)) + '.json')
        rec = {'property': 'C18', 'scenario': sc, 'why': why, 'replay_cmd': 'bin/verif replay ' + path}
        if sc is not None and k < 5:
            for feat in ('default', 'unstable'):
                a = core.run_scenarios([json.dumps(sc)], feat=feat, tag='c18replay', keep=True)
                tr = os.path.join(a['work'], 'trace_0.ndjson')
                rec['trace_' + feat] = open(tr).read().splitlines()[:200] if os.path.exists(tr) else []
                shutil.rmtree(a['work'], ignore_errors=True)
        json.dump(rec, open(path, 'w'), indent=1)
        if k < 12:
            log('VIOLATION property=C18 replay=%s  (%s: %s)' % (path, sid, why))
    cov = {'states': max(1, sum(u.get('tlc_states', 0) for u in units)), 'transitions': max(1, sum(u.get('tlc_transitions', 0) for u in units)),
           'traces_validated_against_impl': sum(u['scenarios'] for u in units), 'scenario_digests_compared': ncmp,
           'events_validated': sum(u['events'] for u in units), 'samples': sample_of(scs2, 2) + sample_of(obs, 1),
           'configurations': ['stable toolchain, default features', 'nightly toolchain, --features unstable'],
           'digest': 'FNV-1a over op, arguments, callback events (kind, ids), unwound, return value, contents, payloads, length flags, accessor rows of every event of a scenario; excludes addresses, split point, allocation counts, panic message'}
    core.write_evidence('C18', {'property_id': 'C18', 'tier': tier, 'seed': seed(), 'level': 'model_checking', 'coverage': cov,
                                'assumptions': COMMON_ASSUME + ['the nightly toolchain installed in the sandbox stands for "a nightly toolchain"'],
                                'wall_s': round(time.time() - t0, 2), 'violations': len(viol)})
    log('C18 [%s]: %d scenarios replayed in both builds, %d digests compared, %d violations, %.1fs' % (tier, sum(u['scenarios'] for u in units), ncmp, len(viol), time.time() - t0))
    return 1 if viol else 0


def check_c19(tier, t0):
    scs, stats = [], []
    for nm in (7, 6, 5, 4, 3):
        raw, st = scen.z_raw(nm)
        stats.append(st)
        for k, r in enumerate(scen.load_raw(raw)):
            lay = r['lay']
            if tier == 'quick' and not (lay['size'] <= 3 and (lay['start'] in (0, 1, nm - 2, nm - 1)) and k % 3 == 0):
                continue
            for ncode in scen.Z_MAP[nm]:
                scs.append(scen.z_build(r, 'z%d-%d-%s' % (nm, k, ncode), ncode))
    for n in (0, 1, 3, 5):
        raw, st = scen.z_small_raw(n)
        stats.append(st)
        for k, r in enumerate(scen.load_raw(raw)):
            if tier == 'quick' and k % 2:
                continue
            scs.append(scen.z_build(r, 'zs%d-%d' % (n, k), str(n)))
    u = run_unit('zst-%s' % tier, scs)
    # random histories at the extreme capacities: positions drift in both directions over 40 calls (a slip that needs a
    # particular sequence of pushes and pops at both ends, e.g. signed arithmetic above 2^63, shows only there)
    rnd = random.Random(seed() + 19)
    zr = [scen.z_random(rnd, ncode, 'zrnd-%s-%d' % (ncode, k), 40) for ncode in sorted(scen.Z_BASE) + ['5', '3', '1', '0']
          for k in range(150 if tier == 'quick' else 1500)]
    uz = run_unit('zst-random-%s-%d' % (tier, seed()), zr)
    cov = l1_cov(stats)
    cov['random_histories'] = {'scenarios': len(zr), 'length': 40, 'seed': seed(), 'capacities': sorted(scen.Z_BASE) + ['5', '3', '1', '0']}
    cov['states_note'] = ('l1_* = exhaustive TLC runs of spec/Ring.tla with MaxU = 7 (3-bit word) and N in {7,6,5,4,3}, where start + i really '
                          'overflows the word; every add_mod call site is checked against its preconditions and against intermediate overflow')
    cov['real_capacities'] = sorted(scen.Z_BASE)
    cov['samples'] = sample_of(scs)
    extra = apalache_units(tier)
    cov['symbolic'] = extra
    if any(not x['ok'] for x in extra):
        for x in extra:
            if not x['ok']:
                log('TOOL-ERROR: apalache obligation failed or did not finish: %s\n%s' % (x['name'], x.get('tail', '')))
        core.write_evidence('C19', {'property_id': 'C19', 'tier': tier, 'seed': seed(), 'level': 'model_checking', 'coverage': dict(cov, states=1, transitions=1, traces_validated_against_impl=0),
                                    'wall_s': time.time() - t0, 'violations': 0})
        return 2
    return judge('C19', [u, uz], tier, t0, 'model_checking', cov, COMMON_ASSUME + [
        'the fill family and other O(N) loops are not run at the extreme capacities (as the property says)',
        'symbolic part: Apalache/Z3 decide the arithmetic lemma and the scalar inductive step for all capacities up to 2^64-1 (spec/WordArith.tla, spec/Shape.tla); they are in the trusted base for that sub-claim'])


def apalache_units(tier):
    from . import apa
    return apa.run_all(tier)


def check_c15(tier, t0):
    from . import witness
    r = witness.run(tier)
    for te in r['tool_errors']:
        log('TOOL-ERROR: ' + te[:1500])
    vdir = core.ensure(os.path.join(OUT, 'violations', 'C15'))
    for k, (label, why, cdir, fn) in enumerate(r['violations']):
        path = os.path.join(vdir, 'witness_%d.json' % k)
        json.dump({'property': 'C15', 'witness': label, 'why': why, 'crate': cdir, 'function': fn,
                   'replay_cmd': 'cd %s && cargo check --offline' % cdir}, open(path, 'w'), indent=1)
        if k < 12:
            log('VIOLATION property=C15 replay=%s  (%s: %s)' % (path, why, label[:160]))
    cov = {'explanation': ('spec/Borrow.tla enumerates every well-formed client program (<= %d statements, one buffer, two views) and classifies it with '
                           'the borrow contract (TLC also checks the aliasing-XOR-mutation theorem on all of them); each legal program and each program with exactly '
                           'one conflict is instantiated with the concrete methods of the crate and compiled: accept witnesses must compile, reject witnesses must each '
                           'be rejected by the borrow checker; the static rows (variance, const, auto traits) get one accept / reject witness each. rustc is the oracle.') % (4 if tier == 'quick' else 5),
           'evaluations': r['accept_functions'] + r['reject_functions'], 'distinct_nontrivial': r['programs'] + r['static_rows'],
           'rule': 'distinct = distinct mode-level programs enumerated by TLC plus rows of the static contract table; each is instantiated with rotating concrete methods',
           'states': r['states'], 'transitions': r['transitions'], 'accept_witnesses': r['accept_functions'], 'reject_witnesses': r['reject_functions'],
           'methods_covered': r['methods_covered'], 'samples': r['samples'], 'exhaustive': True}
    core.write_evidence('C15', {'property_id': 'C15', 'tier': tier, 'seed': seed(), 'level': 'other', 'coverage': cov,
                                'assumptions': ['rustc (the installed stable toolchain) is the oracle for accept / reject',
                                                'the client-program model is bounded: one buffer, two views, %d statements' % (4 if tier == 'quick' else 5),
                                                'static facts (variance, const, auto traits) have no transition content: the specification contributes the table and its enumeration, not a proof'],
                                'wall_s': round(time.time() - t0, 2), 'violations': len(r['violations'])})
    log('C15 [%s]: %d programs from TLC, %d accept witnesses, %d reject witnesses, %d violations, %.1fs'
        % (tier, r['programs'], r['accept_functions'], r['reject_functions'], len(r['violations']), time.time() - t0))
    if r['violations']:
        return 1
    return 2 if r['tool_errors'] else 0


CHECKS = {}
for _p in RING_WANT:
    CHECKS[_p] = (lambda p: (lambda tier, t0: check_ring(p, tier, t0)))(_p)
CHECKS['C04'] = check_c04
CHECKS['C13'] = check_c13
CHECKS['C14'] = check_c14
CHECKS['C15'] = check_c15
CHECKS['C19'] = check_c19
CHECKS['C18'] = check_c18
CHECKS['C16'] = check_c16


def check(pid, tier):
    t0 = time.time()
    if pid not in CHECKS:
        log('no check registered for ' + pid)
        return 2
    return CHECKS[pid](tier, t0)


# ------------------------------------------------------------------------------------------------
def setup(argv):
    t0 = time.time()
    # 1. specs parse
    for m in ['Contract.tla', 'Trace.tla', 'Ring.tla']:
        tmpd = core.ensure(os.path.join(OUT, 'work', 'sany_tmp'))
        p = subprocess.run(['java', '-Djava.io.tmpdir=' + tmpd, '-cp', core.TLA_CP, 'tla2sany.SANY', m], cwd=SPEC, stdout=subprocess.PIPE, stderr=subprocess.STDOUT)
        shutil.rmtree(tmpd, ignore_errors=True)
        if p.returncode != 0 or b'*** Errors' in p.stdout or b'Fatal' in p.stdout:
            log(p.stdout.decode()[-3000:])
            log('SANY failed on ' + m)
            return 2
    log('specs parse (%.0fs)' % (time.time() - t0))
    # 2. harness builds
    for feat in ['default', 'eio', 'eio-async', 'eio-both', 'unstable']:
        binp, out = core.build_harness(feat, quiet=False)
        if binp is None:
            log(out[-3000:])
            log('harness build failed: ' + feat)
            return 2
    # 3. scenario generation (TLC over Ring.tla, cached by spec hash)
    import concurrent.futures as cf
    ns = ring_ns('thorough' if '--thorough' in argv else 'quick')
    jobs = [(n, None) for n in ns if n <= 4] + [(n, ['conv', 'faults', 'provided']) for n in ns if n <= 4] + [(n, ['io']) for n in ([0, 1, 2, 3] if '--thorough' not in argv else [0, 1, 2, 3, 4, 5])]
    with cf.ThreadPoolExecutor(max_workers=11) as ex:
        zjobs = {nm: ex.submit(scen.z_raw, nm) for nm in (7, 6, 5, 4, 3)}      # the longest ones first
        for raw, st in ex.map(lambda j: scen.ring_raw(j[0], families=j[1]), jobs):
            log('Ring.tla N=%d %s: %d states, %d scenarios, refinement holds (%.0fs)' % (st['n'], ','.join(st['families']) if len(st['families']) < 5 else 'all', st['states'], st['scenarios'], st['wall_s']))
        for raw, st in ex.map(lambda n: scen.ring_raw(n, families=WIDE_FAMILIES), wide_ns('thorough' if '--thorough' in argv else 'quick')):
            log('Ring.tla N=%d basic families: %d states, %d scenarios (%.0fs)' % (st['n'], st['states'], st['scenarios'], st['wall_s']))
        if '--thorough' in argv:
            for res in ex.map(ring_raws, [n for n in ns if n > 4]):
                for raw, st in res:
                    log('Ring.tla N=%d %s: %d states, %d scenarios (%.0fs)' % (st['n'], ','.join(st['families']), st['states'], st['scenarios'], st['wall_s']))
    hs, hstats = history_scenarios('thorough' if '--thorough' in argv else 'quick')
    for st in hstats:
        log('Ring.tla N=%d history mode: %d behaviours of %d calls simulated, %d scenarios, refinement holds (%.0fs)'
            % (st['n'], st['behaviours_simulated'], st['calls_per_behaviour'], st['scenarios'], st['wall_s']))
    for n in range(0, 6):
        r = scen.reach(n)
        if r['reachable_layouts'] != r['all_layouts']:
            log('Ring.tla N=%d: only %d of %d layouts are reachable from new(): the one-shot initial states over-approximate' % (n, r['reachable_layouts'], r['all_layouts']))
            return 2
    log('Ring.tla: every layout (start, size) of the one-shot initial states is reachable from new() for N = 0..5')
    from . import apa
    for r in apa.run_all('quick'):
        log('apalache %s: %s (expected %s) %s' % (r['name'], r['outcome'], r['expected'], 'ok' if r['ok'] else 'FAILED'))
        if not r['ok']:
            return 2
    for nm in (7, 6, 5, 4, 3):
        raw, st = zjobs[nm].result()
        log('Ring.tla 3-bit word, N=%d: %d states, refinement holds (%.0fs)' % (nm, st['states'], st['wall_s']))
    log('setup done in %.0fs' % (time.time() - t0))
    return 0


def replay(path):
    d = json.load(open(path))
    if d.get('config') and d.get('cmd'):
        # a feature-configuration build (C17): build again and read the linked crates
        for b in crate_config_builds():
            if b['config'] == d['config']:
                log('%s: %s (links %s)' % (b['config'], 'ok' if b['ok'] else b['why'], ', '.join(b['links'])))
                if not b['ok']:
                    log('VIOLATION property=%s replay=%s' % (d.get('property', 'C17'), path))
                    return 1
        return 0
    if d.get('property') == 'C15' or (d.get('other_scenario') and d.get('property') == 'C04'):
        # witness crates / pairs of runs are not single scenarios: re-run the check that produced them
        log('%s is not a single scenario; re-running the quick check of %s' % (path, d['property']))
        return CHECKS[d['property']]('quick', time.time())
    if not d.get('scenario'):
        log('no scenario recorded in ' + path)
        return 2
    agg = core.run_scenarios([json.dumps(d['scenario'])], tag='replay')
    for f in agg['fails']:
        log('FAIL line=%s op=%s clauses=%s' % (f['l'], f['op'], f['f']))
    pid = d['property']
    bad = [f for f in agg['fails'] if labels_for(pid, f)]
    log('replayed %s: %d events, %d failing events for %s' % (d['scenario']['id'], agg['events'], len(bad), pid))
    if bad or agg['crashes']:
        log('VIOLATION property=%s replay=%s' % (pid, path))
        return 1
    return 0


def gen(argv):
    return 0


def selftest(argv):
    from . import selftest as st
    return st.run(argv)
