"""C15: witness programs generated from spec/Borrow.tla, judged by rustc.

TLC enumerates every well-formed client program (<= MaxLen statements over one buffer and two views) and classifies
it with the borrow contract; this module instantiates the legal ones (accept crate: must compile) and the ones with
exactly one conflict (reject crate: every function must be rejected by the borrow checker) with the concrete methods
of the crate, plus one witness per row of the static contract table (variance, const, auto traits)."""
import os, re, json, time, shutil, subprocess
from . import core
from .core import OUT, SPEC, REPO, ToolError

PRG_RE = re.compile(r'^"(PRG|TAB) (\{.*\})"$')

S_VIEWS = {
    'iter': ('let mut {v} = b.iter();', 'let _ = {v}.next();'),
    'range': ('let mut {v} = b.range(0..1);', 'let _ = {v}.next_back();'),
    'as_slices': ('let {v} = b.as_slices();', 'let _ = {v}.0.len() + {v}.1.len();'),
    'get': ('let {v} = b.get(0);', 'let _ = {v}.map(|s| s.len());'),
    'front': ('let {v} = b.front();', 'let _ = {v}.map(|s| s.len());'),
    'back': ('let {v} = b.back();', 'let _ = {v}.map(|s| s.len());'),
    'nth_front': ('let {v} = b.nth_front(1);', 'let _ = {v}.map(|s| s.len());'),
    'nth_back': ('let {v} = b.nth_back(0);', 'let _ = {v}.map(|s| s.len());'),
    'index': ('let {v} = &b[0];', 'let _ = {v}.len();'),
    'iter_ref': ('let mut {v} = (&b).into_iter();', 'let _ = {v}.next();'),
}
M_VIEWS = {
    'iter_mut': ('let mut {v} = b.iter_mut();', 'let _ = {v}.next();', False),
    'range_mut': ('let mut {v} = b.range_mut(..1);', 'let _ = {v}.next();', False),
    'drain': ('let mut {v} = b.drain(..);', 'let _ = {v}.next();', True),          # has a destructor: dropped after its last use
    'as_mut_slices': ('let {v} = b.as_mut_slices();', 'let _ = {v}.0.len();', False),
    'make_contiguous': ('let {v} = b.make_contiguous();', '{v}[0].push(\'x\');', False),
    'get_mut': ('let mut {v} = b.get_mut(0);', 'let _ = {v}.as_mut().map(|s| s.push(\'x\'));', False),
    'front_mut': ('let mut {v} = b.front_mut();', 'let _ = {v}.as_mut().map(|s| s.push(\'x\'));', False),
    'back_mut': ('let mut {v} = b.back_mut();', 'let _ = {v}.as_mut().map(|s| s.push(\'x\'));', False),
    'nth_front_mut': ('let mut {v} = b.nth_front_mut(0);', 'let _ = {v}.as_mut().map(|s| s.push(\'x\'));', False),
    'nth_back_mut': ('let mut {v} = b.nth_back_mut(0);', 'let _ = {v}.as_mut().map(|s| s.push(\'x\'));', False),
    'index_mut': ('let {v} = &mut b[0];', '{v}.push(\'x\');', False),
}
S_CALLS = {
    'len': 'let _ = b.len();', 'is_empty': 'let _ = b.is_empty();', 'is_full': 'let _ = b.is_full();',
    'capacity': 'let _ = b.capacity();', 'to_vec': 'let _ = b.to_vec();', 'eq': 'let _ = b == [String::new()];',
}
M_CALLS = {
    'push_back': 'b.push_back(String::new());', 'push_front': 'b.push_front(String::new());',
    'try_push_back': 'let _ = b.try_push_back(String::new());', 'pop_back': 'let _ = b.pop_back();',
    'pop_front': 'let _ = b.pop_front();', 'remove': 'let _ = b.remove(0);', 'swap': 'b.swap(0, 1);',
    'truncate_back': 'b.truncate_back(1);', 'clear': 'b.clear();', 'fill': 'b.fill(String::new());',
    'extend': 'b.extend([String::new()]);', 'extend_from_slice': 'b.extend_from_slice(&[String::new()]);',
}
MOVES = {'drop': 'drop(b);', 'into_iter': 'let _it = b.into_iter();', 'move_into_fn': 'consume(b);'}

PRELUDE = '''#![allow(unused_mut, unused_variables, dead_code, unused_imports, clippy::all)]
use circular_buffer::{CircularBuffer, Drain, IntoIter, Iter, IterMut};
fn mk() -> CircularBuffer<4, String> { CircularBuffer::from_iter([String::from("a"), String::from("b"), String::from("c")]) }
fn consume(_b: CircularBuffer<4, String>) {}
fn is_send<X: Send>() {}
fn is_sync<X: Sync>() {}
/// Sync but not Send
type Guard = std::sync::MutexGuard<'static, u32>;
/// Send but not Sync
type Shy = std::cell::Cell<u32>;
'''


def tlc_programs(maxlen=4):
    key = core.sha(core.spec_hash(['Borrow.tla']), maxlen)
    path = os.path.join(core.ensure(os.path.join(OUT, 'scen')), 'borrow_%s.json' % key)
    if os.path.exists(path):
        return json.load(open(path))
    cfg = os.path.join(SPEC, '_gen_borrow_%d.cfg' % os.getpid())
    open(cfg, 'w').write('SPECIFICATION Spec\nCONSTANT MaxLen = %d\nINVARIANTS Theorem Emit EmitTables\nCHECK_DEADLOCK FALSE\n' % maxlen)
    md = os.path.join(OUT, 'work', 'md_borrow_%d' % os.getpid())
    try:
        rc, out = core.java_tlc(['-workers', '1', '-metadir', md, '-cleanup', '-noGenerateSpecTE', '-config', os.path.basename(cfg), 'Borrow.tla'],
                                heap='4g', timeout=1800)
    finally:
        os.remove(cfg)
    st = core.tlc_stats(out)
    if st is None or 'No error has been found' not in out:
        raise ToolError('TLC failed on Borrow.tla:\n' + out[-3000:])
    progs, tables = [], None
    for line in out.splitlines():
        m = PRG_RE.match(line)
        if not m:
            continue
        d = json.loads(m.group(2).encode().decode('unicode_escape'))
        if m.group(1) == 'PRG':
            progs.append(d)
        elif tables is None:
            tables = d
    res = {'programs': progs, 'tables': tables, 'states': st['distinct'], 'transitions': st['generated']}
    json.dump(res, open(path, 'w'))
    return res


def instantiate(prog, k, tables):
    """Rust statements for one mode-level program; k rotates the choice of concrete methods"""
    sv = sorted(n for n, m in tables['views'].items() if m == 'S' and n in S_VIEWS)
    mv = sorted(n for n, m in tables['views'].items() if m == 'M' and n in M_VIEWS)
    sc = sorted(n for n, m in tables['calls'].items() if m == 'S' and n in S_CALLS)
    mc = sorted(n for n, m in tables['calls'].items() if m == 'M' and n in M_CALLS)
    mvs = sorted(MOVES)
    lines, kinds, drains = ['let mut b = mk();'], {}, {}
    last_use = {}
    for x, st in enumerate(prog):
        if st['s'] == 'use':
            last_use[st['v']] = x
    used = []
    for x, st in enumerate(prog):
        s = st['s']
        if s == 'newS':
            name = sv[(k + 3 * x + st['v']) % len(sv)]
            kinds[st['v']] = ('S', name)
            lines.append(S_VIEWS[name][0].format(v='v%d' % st['v']))
            used.append(name)
        elif s == 'newM':
            name = mv[(k + 5 * x + st['v']) % len(mv)]
            kinds[st['v']] = ('M', name)
            lines.append(M_VIEWS[name][0].format(v='v%d' % st['v']))
            used.append(name)
            if M_VIEWS[name][2] and st['v'] not in last_use:
                lines.append('drop(v%d);' % st['v'])
        elif s == 'use':
            mode, name = kinds[st['v']]
            tmpl = S_VIEWS[name][1] if mode == 'S' else M_VIEWS[name][1]
            lines.append(tmpl.format(v='v%d' % st['v']))
            if mode == 'M' and M_VIEWS[name][2] and last_use.get(st['v']) == x:
                lines.append('drop(v%d);' % st['v'])
        elif s == 'callS':
            name = sc[(k + x) % len(sc)]
            lines.append(S_CALLS[name])
            used.append(name)
        elif s == 'callM':
            name = mc[(k + 7 * x) % len(mc)]
            lines.append(M_CALLS[name])
            used.append(name)
        elif s == 'drop':
            name = mvs[(k + x) % len(mvs)]
            lines.append(MOVES[name])
            used.append(name)
    return lines, used


def static_witnesses():
    """(accept functions, reject-by-borrowck functions, reject-by-typeck functions), keyed by StaticContract row"""
    acc, rejb, rejt = {}, {}, {}
    for ty, gen in [('CircularBuffer', "CircularBuffer<4, &'x str>"), ('IntoIter', "IntoIter<4, &'x str>")]:
        acc['%s/covariant_in_T' % ty] = "fn w<'a>(x: %s) -> %s { x }" % (gen.replace("'x", "'static"), gen.replace("'x", "'a"))
    acc['Iter/covariant_in_T'] = "fn w<'a, 'b>(x: Iter<'b, &'static str>) -> Iter<'b, &'a str> { x }"
    acc['Drain/covariant_in_T'] = "fn w<'a, 'b>(x: Drain<'b, 4, &'static str>) -> Drain<'b, 4, &'a str> { x }"
    rejb['IterMut/covariant_in_T'] = "fn w<'a, 'b>(x: IterMut<'b, &'static str>) -> IterMut<'b, &'a str> { x }"
    rejb['Drain/element_lifetime_can_be_lengthened'] = "fn w<'a, 'b>(x: Drain<'b, 4, &'a str>) -> Drain<'b, 4, &'static str> { x }"
    rejb['Iter/element_lifetime_can_be_lengthened'] = "fn w<'a, 'b>(x: Iter<'b, &'a str>) -> Iter<'b, &'static str> { x }"
    rejb['Drain/can_outlive_buffer'] = "fn w() -> Drain<'static, 4, String> { let mut b = mk(); b.drain(..) }"
    rejb['Iter/can_outlive_buffer'] = "fn w() -> Iter<'static, String> { let b = mk(); b.iter() }"
    acc['CircularBuffer/new_is_const'] = ("const W_C: CircularBuffer<4, u32> = CircularBuffer::new();\n"
                                          "static W_S: CircularBuffer<0, String> = CircularBuffer::new();\n"
                                          "fn w() -> usize { W_C.len() + W_S.len() }")
    acc['Iter/clone_without_T_clone'] = "struct NoClone;\nfn w<'a>(it: &Iter<'a, NoClone>) -> Iter<'a, NoClone> { it.clone() }"
    acc['CircularBuffer/send_iff_T_send'] = "fn w<T: Send>() { is_send::<CircularBuffer<4, T>>() }"
    rejt['CircularBuffer/send_iff_T_send'] = "fn w() { is_send::<CircularBuffer<4, Guard>>() }"
    acc['CircularBuffer/sync_iff_T_sync'] = "fn w<T: Sync>() { is_sync::<CircularBuffer<4, T>>() }"
    rejt['CircularBuffer/sync_iff_T_sync'] = "fn w() { is_sync::<CircularBuffer<4, Shy>>() }"
    acc['Iter/send_iff_T_sync'] = "fn w<'a, T: Sync + 'a>() { is_send::<Iter<'a, T>>() }"
    rejt['Iter/send_iff_T_sync'] = "fn w() { is_send::<Iter<'static, Shy>>() }"
    acc['Iter/sync_iff_T_sync'] = "fn w<'a, T: Sync + 'a>() { is_sync::<Iter<'a, T>>() }"
    rejt['Iter/sync_iff_T_sync'] = "fn w() { is_sync::<Iter<'static, Shy>>() }"
    acc['IterMut/send_iff_T_send'] = "fn w<'a, T: Send + 'a>() { is_send::<IterMut<'a, T>>() }"
    rejt['IterMut/send_iff_T_send'] = "fn w() { is_send::<IterMut<'static, Guard>>() }"
    acc['IterMut/sync_iff_T_sync'] = "fn w<'a, T: Sync + 'a>() { is_sync::<IterMut<'a, T>>() }"
    rejt['IterMut/sync_iff_T_sync'] = "fn w() { is_sync::<IterMut<'static, Shy>>() }"
    acc['IntoIter/send_iff_T_send'] = "fn w<T: Send>() { is_send::<IntoIter<4, T>>() }"
    rejt['IntoIter/send_iff_T_send'] = "fn w() { is_send::<IntoIter<4, Guard>>() }"
    acc['IntoIter/sync_iff_T_sync'] = "fn w<T: Sync>() { is_sync::<IntoIter<4, T>>() }"
    rejt['IntoIter/sync_iff_T_sync'] = "fn w() { is_sync::<IntoIter<4, Shy>>() }"
    rejt['Drain/send_without_T_send'] = "fn w() { is_send::<Drain<'static, 4, Guard>>() }"
    rejt['Drain/sync_without_T_sync'] = "fn w() { is_sync::<Drain<'static, 4, Shy>>() }"
    rejt['Drain/send_without_T_sync'] = "fn w() { is_send::<Drain<'static, 4, Shy>>() }"
    return acc, rejb, rejt


class Crate:
    def __init__(self, name):
        self.name = name
        self.dir = os.path.join(OUT, 'witness', name)
        self.items = []          # (label, first line, last line)
        self.lines = PRELUDE.splitlines()

    def add_fn(self, label, body_lines):
        first = len(self.lines) + 1
        fname = 'w_%d' % len(self.items)
        self.lines.append('pub fn %s() {' % fname)
        self.lines += ['    ' + l for l in body_lines]
        self.lines.append('}')
        self.items.append((label, first, len(self.lines), fname))

    def add_item(self, label, text):
        first = len(self.lines) + 1
        fname = 'w_%d' % len(self.items)
        self.lines.append('mod m_%d {' % len(self.items))
        self.lines.append('    use super::*;')
        self.lines += ['    ' + l for l in text.splitlines()]
        self.lines.append('}')
        self.items.append((label, first, len(self.lines), fname))

    def write(self):
        shutil.rmtree(self.dir, ignore_errors=True)
        core.ensure(os.path.join(self.dir, 'src'))
        core.ensure(os.path.join(self.dir, '.cargo'))
        open(os.path.join(self.dir, 'Cargo.toml'), 'w').write(
            '[package]\nname = "%s"\nversion = "0.0.0"\nedition = "2021"\n\n[workspace]\n\n[dependencies]\ncircular-buffer = { path = "%s" }\n' % (self.name.replace('_', '-'), REPO))
        shutil.copy(os.path.join(REPO, 'Cargo.lock'), os.path.join(self.dir, 'Cargo.lock'))
        open(os.path.join(self.dir, '.cargo', 'config.toml'), 'w').write('[net]\noffline = true\n[build]\ntarget-dir = "target"\n')
        open(os.path.join(self.dir, 'src', 'lib.rs'), 'w').write('\n'.join(self.lines) + '\n')

    def check(self):
        """returns (ok, errors_by_item {index: [codes]}, raw error count, unattributed errors)"""
        env = dict(os.environ, CARGO_NET_OFFLINE='true')
        tdir = os.path.join(OUT, 'witness', '_target')
        p = subprocess.run(['cargo', 'check', '--offline', '--message-format=json', '--target-dir', tdir], cwd=self.dir, env=env,
                           stdout=subprocess.PIPE, stderr=subprocess.PIPE)
        by, other, n = {}, [], 0
        for line in p.stdout.decode('utf-8', 'replace').splitlines():
            try:
                d = json.loads(line)
            except Exception:
                continue
            if d.get('reason') != 'compiler-message':
                continue
            msg = d['message']
            if msg.get('level') != 'error':
                continue
            spans = [s for s in msg.get('spans', []) if s.get('is_primary')] or msg.get('spans', [])
            if not spans:
                if 'aborting due to' not in msg.get('message', ''):
                    other.append(msg.get('message', '')[:200])
                continue
            n += 1
            ln = spans[0]['line_start']
            code = (msg.get('code') or {}).get('code') or 'region'
            hit = False
            for idx, (label, a, b, fn) in enumerate(self.items):
                if a <= ln <= b:
                    by.setdefault(idx, []).append(code)
                    hit = True
                    break
            if not hit:
                other.append('%s at line %d: %s' % (code, ln, msg.get('message', '')[:120]))
        return p.returncode == 0, by, n, other, p.stderr.decode('utf-8', 'replace')[-2000:]


BORROW_CODES = {'E0499', 'E0502', 'E0505', 'E0506', 'E0382', 'E0515', 'E0597', 'E0716', 'E0503', 'E0521', 'region'}


def run(tier):
    """returns dict: violations [(label, why, crate dir)], counts, tool_errors"""
    res = tlc_programs(4 if tier == 'quick' else 5)
    tables = res['tables']
    variants = 2 if tier == 'quick' else 3
    acc, rej, rejt = Crate('accept'), Crate('reject_borrow'), Crate('reject_type')
    covered = {}
    for idx, pr in enumerate(res['programs']):
        for k in range(variants):
            lines, used = instantiate(pr['prog'], idx + 11 * k, tables)
            label = 'program %d/%d %s: %s' % (idx, k, pr['cls'], ' ; '.join(lines[1:]))
            (acc if pr['cls'] == 'accept' else rej).add_fn(label, lines)
            for u in used:
                covered.setdefault(u, [0, 0])[0 if pr['cls'] == 'accept' else 1] += 1
    sa, sb, st = static_witnesses()
    rows = {(r['ty'] + '/' + r['fact']): r['holds'] for r in tables['static']}
    for key, holds in sorted(rows.items()):
        if holds:
            if key not in sa:
                raise ToolError('no accept witness for static contract row ' + key)
            acc.add_item('static ' + key + ' (must hold)', sa[key])
            if key in st:
                rejt.add_item('static ' + key + ' (converse must be rejected)', st[key])
        else:
            if key in sb:
                rej.add_item('static ' + key + ' (must not hold)', sb[key])
            elif key in st:
                rejt.add_item('static ' + key + ' (must not hold)', st[key])
            else:
                raise ToolError('no reject witness for static contract row ' + key)
    out = {'violations': [], 'tool_errors': [], 'programs': len(res['programs']), 'states': res['states'], 'transitions': res['transitions'],
           'accept_functions': len(acc.items), 'reject_functions': len(rej.items) + len(rejt.items), 'methods_covered': covered,
           'static_rows': len(rows), 'samples': []}
    for c in (acc, rej, rejt):
        c.write()
    ok, by, n, other, err = acc.check()
    if not ok:
        if not by and other:
            out['tool_errors'].append('accept crate failed without attributable errors: %s\n%s' % (other[:3], err))
        for idx, codes in by.items():
            out['violations'].append((acc.items[idx][0], 'a legal program is rejected by rustc: %s' % sorted(set(codes)), acc.dir, acc.items[idx][3]))
    for c in (rej, rejt):
        ok, by, n, other, err = c.check()
        if ok:
            out['violations'].append(('whole crate %s' % c.name, 'every function of this crate must be rejected, but the crate compiles', c.dir, ''))
            continue
        if n == 0:
            out['tool_errors'].append('%s failed with no compiler errors: %s' % (c.name, err))
            continue
        for idx, (label, a, b, fn) in enumerate(c.items):
            codes = by.get(idx, [])
            if not codes:
                out['violations'].append((label, 'an illegal program / a contract that must not hold is accepted by rustc (no error in this item)', c.dir, fn))
            elif c is rej and not (set(codes) & BORROW_CODES):
                out['tool_errors'].append('%s: rejected for an unexpected reason %s' % (label, sorted(set(codes))))
            elif c is rejt and 'E0277' not in codes:
                out['tool_errors'].append('%s: rejected for an unexpected reason %s' % (label, sorted(set(codes))))
        if c is rejt and other and not by:
            out['tool_errors'].append('reject_type: %s' % other[:3])
    out['samples'] = [acc.items[0][0], rej.items[0][0], rej.items[-1][0], rejt.items[0][0]]
    return out
