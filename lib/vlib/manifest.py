"""Generates /verif/MANIFEST.json from one table (python3 lib/vlib/manifest.py)."""
import json, os, sys

VERIF = os.path.abspath(os.path.join(os.path.dirname(__file__), '..', '..'))

TECH = ('explicit TLA+ specification (spec/Contract.tla = contract L0, spec/Ring.tla = mechanism L1) checked by TLC: '
        'refinement L1 => L0 exhaustively for small capacities; conformance in both directions: every TLC-enumerated '
        'behaviour of L1 (one call from every layout, and TLC-simulated multi-call histories from new()) is replayed into the real crate, and the recorded trace is validated by TLC against L0 (spec/Trace.tla)')

NOTE = ('trusted base: TLC + CommunityModules JSON, rustc/cargo, the harness crate /verif/harness (records calls and user callbacks, '
        'judges nothing). Bounded: capacities 0..4 (quick) / 0..5 (thorough) for all operation families, 5..8 for the basic families and drain-and-drop, zero-sized elements at eight capacities up to usize::MAX, one injected fault per scenario; the hand transcription '
        'spec/Ring.tla is only a scenario generator and design-level check - the verdict on the code comes from validating traces of '
        'the real code against spec/Contract.tla')

P = {
    'C01': ('model_checking', 'every mutator from every layout (start x size) with every argument is executed on the real type and TLC checks contents, length flags, return value and payloads of each recorded call against the abstract bounded deque; per-transition agreement from every layout gives all finite histories by induction', '7'),
    'C02': ('model_checking', 'push/try_push at both ends from every layout, identity-tracked elements: returned element, Err iff full, unchanged buffer on Err', '7'),
    'C03': ('model_checking', 'ledger in the contract: every element is in exactly one place after every call, destructor runs = exactly what the call destroys, nothing alive at scenario end; all panic-free scenarios incl. every drain / iterator consumption script', '7'),
    'C04': ('model_checking', 'the same scenario set is replayed with unoccupied slots overwritten (0x00/0xFF/0x5A, stale elements, copies of live elements) and with layouts reached by different histories; any touched garbage is an event the contract has no clause for; groups of behaviours with equal logical contents must give equal canonical digests; on u8 buffers the Hasher transcript, ==, cmp, Debug and clone() are compared with a fresh buffer of equal contents', '7'),
    'C05': ('model_checking', 'every destructor invocation of every element-destroying call is made to panic once (enumerated by TLC on L1); contract: never a second destructor run, valid buffer afterwards, follow-up calls behave', '7'),
    'C06': ('model_checking', 'every clone / closure / iterator invocation of every call running user code is made to panic once; contract: valid buffer, no double drop, nothing created is leaked once the buffer is dropped', '7'),
    'C07': ('model_checking', 'after every call the full accessor table (get, nth_*, front/back, index, iter, range, as_slices and all _mut forms, positions 0..len+1 and usize::MAX) is recorded with element addresses; TLC checks every row against the abstract sequence and the slot map', '7'),
    'C08': ('model_checking', 'every interleaving of next/next_back (one past exhaustion) with len after every step or never, for iter/iter_mut/range/range_mut over every layout and every canonical range; every RangeBounds form for creation; nth/nth_back (k = 0..2) as first or second step and the by-value provided methods fold, rfold, for_each, collect, rev().collect, count, last after every script prefix', '7'),
    'C09': ('model_checking', 'drain over every layout x every range (all RangeBounds forms) x every consumption script, then drop: yielded ids, len, contents afterwards, destructor runs; includes capacity 0; nth/nth_back and the by-value provided methods (count / last destroy what they skip)', '7'),
    'C10': ('model_checking', 'mem::forget of a drain after every script prefix, then follow-up operations and drop: contents are live, distinct, from the original, disjoint from handed-out elements; no second destructor run', '7'),
    'C11': ('model_checking', 'panic iff documented (range/drain bounds incl. Included/Excluded(usize::MAX), swap, index); every other call returns for every argument incl. usize::MAX and capacity 0; unchanged contents after a documented panic; a process that dies or hangs is attributed to its scenario; includes the byte-stream unit (consume(usize::MAX), destinations longer than the contents)', '7'),
    'C12': ('model_checking', 'from array (all lengths 0..2N+1), from_iter, new/default/boxed: contents, destroyed prefix, ids', '7'),
    'C13': ('model_checking', 'spec/Observers.tla: TLC proves for every pair of physical states (capacities 0..3 x 0..3 quick / 0..4 thorough, every front position, length and two-letter contents on both sides) that the segment-wise PartialEq alignment, PartialEq<[U]>, iteration order and hash feed equal the functions of the two abstract sequences; every pair is replayed on the real type (==, !=, <, <=, >, >=, partial_cmp, cmp, hash, six slice/array/reference forms, Debug under eleven formatter flag sets) and each result validated against the contract', '7'),
    'C14': ('model_checking', 'write/read/fill_buf/consume/flush from every layout with every length (write 0..2N+1, destination 0..N+2, consume 0..N+2 and usize::MAX) enumerated by TLC on the I/O family of L1, replayed on CircularBuffer<N,u8> with garbage in unoccupied bytes, plus the provided methods read_exact, read_to_end, read_to_string (UTF-8 characters straddling the wrap point, invalid text), read_until, read_vectored, write_all, write_vectored, write_fmt; plus seeded random interleavings at larger capacities; each call validated against the byte-stream clauses of the contract', '7'),
    'C15': ('other', 'spec/Borrow.tla is a machine over client programs (create view / use view / &self call / &mut self call / move) with the crate borrow contract as its guard; TLC enumerates all programs up to 4 (thorough: 5) statements, checks the aliasing-XOR-mutation theorem on them and classifies them; every legal program must compile and every single-conflict program must be rejected by the borrow checker when instantiated with the concrete methods (accept / reject witness crates built against the current tree); variance, const-ness, Iter: Clone and the Send/Sync table are rows of a static contract table with one accept or reject witness each. rustc is the oracle; the specification supplies the enumeration. This is partly outside the family: static type facts have no transition content', '7'),
    'C16': ('model_checking', 'the C14 scenario set replayed through embedded_io and embedded_io_async trait methods (and std::io in the same build) in three builds (embedded-io, embedded-io-async, both); one contract for all families => same counts, bytes, contents; futures polled once must be Ready; a build failure of a configuration is a violation', '7'),
    'C17': ('model_checking', 'allocation counter of a counting global allocator sampled around every recorded call; contract clause allocs = 0 except boxed/to_vec; includes the byte-stream unit with the provided std::io methods a crate may override (read_exact, read_to_end, read_to_string, read_until, read_vectored, write_all, write_vectored, write_fmt). The build sentence of the property is outside any model: the library is built with default features off and with only alloc, and the crates it links against are read from the rlib metadata (core only / core + alloc)', '7'),
    'C18': ('model_checking', 'the complete scenario sets of the other checks (all behaviours without fault, all with an injected fault, the observer pairs) are replayed in a nightly build with --features unstable: every trace must be accepted by the same contract and the digest of the property-level projection (results, contents, panics, element lifecycle callbacks) of every scenario must equal that of the default build', '7'),
    'C19': ('model_checking', 'three layers: Apalache decides the add_mod lemma and the scalar inductive step (invariant, no overflow/underflow/division by zero, indices and slice ranges in bounds, back-fill loop <= 3 iterations) for ALL capacities <= 2^64-1 symbolically (spec/WordArith.tla, spec/Shape.tla, with refuted sanity mutants); TLC checks the full mechanism at a 3-bit word where position arithmetic really wraps; the enumerated behaviours are replayed with a destructor-counting ZST on the real capacities usize::MAX, usize::MAX-1, 2^63+1, 2^63, 2^63-1, 2^32+1, 2^32, 2^32-1 with fronts near 0 and near N (mutators, accessors, drain, range/range_mut/iter/iter_mut with consumption scripts) and validated against the length/flag/result/destructor-count clauses of the contract', '7'),
    'C20': ('model_checking', 'relocations measured from element addresses before/after each call; contract bounds per operation (<= 2, len-i for remove, len-j for drain, 0 for make_contiguous on contiguous contents)', '7'),
}


def main():
    checks = []
    for pid in sorted(P):
        lvl, text, ref = P[pid]
        tech = TECH if pid != 'C15' else 'explicit TLA+ client-program model (spec/Borrow.tla) enumerated and classified by TLC; generated accept/reject witness crates compiled against the crate, rustc as oracle'
        checks.append({
            'property_id': pid,
            'quick_cmd': 'bin/verif check %s --tier quick' % pid,
            'thorough_cmd': 'bin/verif check %s --tier thorough' % pid,
            'evidence_file': 'evidence/%s.json' % pid,
            'replay_cmd_template': 'bin/verif replay {path}',
            'engine': 'tla-conformance',
            'level_claimed': {'category': lvl, 'text': text, 'design_ref': 'DESIGN.md section ' + ref},
            'level_note': NOTE,
            'technique': tech,
        })
    props = [json.loads(l)['id'] for l in open(os.path.join(VERIF, 'properties.jsonl'))]
    na = [{'property_id': p, 'reason': 'check not built yet (work in progress; DESIGN.md section 13 gives the plan for it)'}
          for p in props if p not in P]
    m = {
        'version': 1,
        'setup_cmd': 'bin/verif setup',
        'hooks': {
            'guard': 'circular_buffer_verif',
            'enable': "no source hooks exist: the harness observes through the public API and its own element type; every harness build passes --cfg circular_buffer_verif (harness/.cargo/config.toml)",
            'baseline_off_cmd': 'cd /repo && cargo test --workspace --no-fail-fast --offline',
            'source_commits': [],
            'add_only': True,
        },
        'engines': [{
            'name': 'tla-conformance', 'path': 'bin/verif',
            'serves_properties': sorted(P),
            'kind_free_text': 'TLA+ contract + mechanism specs, TLC model checking, TLC-generated scenarios replayed into the crate, TLC trace validation',
        }],
        'checks': checks,
        'not_applicable': na,
        'notes': 'See DESIGN.md. Genuine defects found on the pinned tree were repaired by six fix: commits in /repo and are listed under "fixed" in known_findings.json.',
    }
    json.dump(m, open(os.path.join(VERIF, 'MANIFEST.json'), 'w'), indent=1)
    print('MANIFEST.json: %d checks, %d not applicable' % (len(checks), len(na)))


if __name__ == '__main__':
    main()
