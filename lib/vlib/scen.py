"""Scenario sets: TLC enumerates them from spec/Ring.tla (one-shot mode: every layout x every call x
every argument x every fault point x every view script); this module turns TLC's output into harness
scenarios (prelude that reaches the layout through the public API, the calls, follow-ups)."""
import os, json, re, time, shutil
from . import core
from .core import OUT, SPEC, log, ToolError

ALL_FAMILIES = ["single", "positional", "bulk", "fill", "extend", "access", "iter", "drain", "ctor", "faults", "provided"]


def tla_set(xs):
    return '{' + ','.join('"%s"' % x for x in xs) + '}'


def ring_cfg(path, n, pinned, mode, maxcalls, maxarg, families, emit=True, maxu=1073741824, maxscript=99):
    t = open(os.path.join(SPEC, 'Scen_Ring.cfg.tmpl')).read()
    t = (t.replace('@N@', str(n)).replace('@PINNED@', 'TRUE' if pinned else 'FALSE').replace('@MODE@', mode)
          .replace('@MAXCALLS@', str(maxcalls)).replace('@MAXARG@', str(maxarg)).replace('@FAMILIES@', tla_set(families))
          .replace('1073741824', str(maxu)).replace('@MAXSCRIPT@', str(maxscript)))
    if not emit:
        t = t.replace('ACTION_CONSTRAINT EmitScenario\n', '')
    with open(path, 'w') as f:
        f.write(t)


SCN_RE = re.compile(r'^"SCN (\{.*\})"$')


def ring_raw(n, families=None, maxarg=None, pinned=False, force=False, maxu=1073741824, maxscript=99):
    """TLC run of Ring.tla in one-shot mode for capacity n: checks the refinement L1 => L0 on every
    transition and prints every behaviour as a scenario. Cached by spec hash.
    Returns (path of raw scenario file, stats dict)."""
    families = families or ALL_FAMILIES
    maxarg = (2 * n + 1) if maxarg is None else maxarg
    key = core.sha(core.spec_hash(['Ring.tla', 'Contract.tla', 'Scen_Ring.cfg.tmpl']), n, ','.join(families), maxarg, pinned, maxu, maxscript)
    d = core.ensure(os.path.join(OUT, 'scen'))
    raw = os.path.join(d, 'ring_N%d_%s.ndjson' % (n, key))
    meta = raw + '.meta.json'
    if os.path.exists(raw) and os.path.exists(meta) and not force:
        return raw, json.load(open(meta))
    cfg = os.path.join(SPEC, '_gen_ring_%d_%s_%d.cfg' % (n, key, os.getpid()))
    ring_cfg(cfg, n, pinned, 'oneshot', 1, maxarg, families, maxu=maxu, maxscript=maxscript)
    md = os.path.join(OUT, 'work', 'md_ring_%d_%s_%d' % (n, key, os.getpid()))
    t0 = time.time()
    try:
        rc, out = core.java_tlc(['-workers', '1', '-metadir', md, '-cleanup', '-noGenerateSpecTE',
                                 '-config', os.path.basename(cfg), 'Ring.tla'], heap='6g', timeout=7200)
    finally:
        os.remove(cfg)
    st = core.tlc_stats(out)
    if st is None:
        raise ToolError('TLC failed on Ring.tla N=%d:\n%s' % (n, out[-3000:]))
    viol = 'is violated' in out or 'Error:' in out
    lines = []
    for line in out.splitlines():
        m = SCN_RE.match(line)
        if m:
            lines.append(m.group(1).encode().decode('unicode_escape'))
    ops = {}
    for l in lines:
        for m in re.finditer(r'"op":"(\w+)"', l):
            ops[m.group(1)] = ops.get(m.group(1), 0) + 1
    # vacuity guard: every operation of every requested family must have been taken
    stats = {'n': n, 'states': st['distinct'], 'transitions': st['generated'], 'actions': ops,
             'scenarios': len(lines), 'violated': viol, 'wall_s': round(time.time() - t0, 1), 'pinned': pinned,
             'families': families, 'maxarg': maxarg, 'maxu': maxu}
    if viol and not pinned:
        with open(os.path.join(OUT, 'ring_violation_N%d.log' % n), 'w') as f:
            f.write(out)
        raise ToolError('Ring.tla (repaired model) violates an invariant at N=%d: see out/ring_violation_N%d.log' % (n, n))
    tmp = raw + '.tmp'
    with open(tmp, 'w') as f:
        f.write('\n'.join(lines) + ('\n' if lines else ''))
    os.replace(tmp, raw)
    json.dump(stats, open(meta, 'w'))
    return raw, stats


# ------------------------------------------------------------------------------------------------
def layout_steps(n, start, size, route='back', h=0, vals=None):
    """reach (start, size) through the public API only. Fillers are pushed first and popped one by one while the
    real elements are pushed, so that the buffer is never emptied on the way (an implementation that re-centres an
    empty buffer still reaches the layout); `expect_layout` records whether the layout was reached (drift note)."""
    st = [{"op": "new", "h": h}]
    vals = vals if vals is not None else [(k + 1) % 3 for k in range(size)]
    if n > 0 and route == 'back':
        fillers = start
        for _ in range(fillers):
            st.append({"op": "push_back", "h": h, "val": 0})
        for v in vals:
            if fillers > 0 and len([x for x in st if x["op"] == "push_back"]) - len([x for x in st if x["op"] == "pop_front"]) >= n:
                st.append({"op": "pop_front", "h": h})
                fillers -= 1
            st.append({"op": "push_back", "h": h, "val": v})
        for _ in range(fillers):
            st.append({"op": "pop_front", "h": h})
        if start > 0:
            st.append({"op": "caller_drop"})
    elif n > 0:
        # from the other side: push_front / pop_back move the front position backwards
        k = (n - start) % n
        for _ in range(k):
            st.append({"op": "push_front", "h": h, "val": 0})
            st.append({"op": "pop_back", "h": h})
        if k > 0:
            st.append({"op": "caller_drop"})
        for v in vals:
            st.append({"op": "push_back", "h": h, "val": v})
    st.append({"op": "expect_layout", "h": h, "i": start})
    return st


def bound(b):
    return [b['t'], b['x']] if b['t'] != 'u' else ['u']


def ev_step(e, h=0):
    op = e['op']
    s = {"op": op, "h": h}
    if op in ('push_back', 'push_front', 'try_push_back', 'try_push_front', 'fill', 'fill_spare'):
        s['val'] = e['vals'][0] if e['vals'] else 1
    elif op in ('remove', 'swap_remove_back', 'swap_remove_front', 'truncate_back', 'truncate_front',
                'get', 'get_mut', 'nth_front', 'nth_front_mut', 'nth_back', 'nth_back_mut', 'index', 'index_mut'):
        s['i'] = e['i']
    elif op == 'swap':
        s['i'] = e['i']
        s['j'] = e['j']
    elif op in ('fill_with', 'fill_spare_with', 'extend', 'extend_from_slice', 'from_array', 'from_iter'):
        s['vals'] = e['vals']
    elif op in ('drain', 'range', 'range_mut'):
        s['bs'] = bound(e['bs'])
        s['be'] = bound(e['be'])
        s['v'] = 0
    elif op in ('iter', 'iter_mut', 'into_iter'):
        s['v'] = 0
    elif op == 'clone':
        s['h2'] = 2
    elif op == 'clone_from':
        s['h2'] = 1
    elif op.startswith('v_'):
        s['v'] = 0
        del s['h']
        if op in ('v_nth', 'v_nth_back'):
            s['i'] = e['i']
    if e.get('fk', 'none') != 'none':
        s['fault'] = {"k": e['fk'], "n": e['fn']}
    return s


def tags_of(raw):
    evs = raw['evs']
    first = evs[0]['op']
    t = set()
    fam = {
        'push_back': 'single', 'push_front': 'single', 'try_push_back': 'single', 'try_push_front': 'single',
        'pop_back': 'single', 'pop_front': 'single',
        'remove': 'positional', 'swap': 'positional', 'swap_remove_back': 'positional', 'swap_remove_front': 'positional',
        'truncate_back': 'bulk', 'truncate_front': 'bulk', 'clear': 'bulk', 'make_contiguous': 'bulk', 'drop_buf': 'bulk',
        'fill': 'fill', 'fill_spare': 'fill', 'fill_with': 'fill', 'fill_spare_with': 'fill',
        'extend': 'extend', 'extend_from_slice': 'extend', 'from_array': 'ctor', 'from_iter': 'ctor',
        'drain': 'drain', 'iter': 'iter', 'iter_mut': 'iter', 'range': 'iter', 'range_mut': 'iter',
        'clone': 'conv', 'clone_from': 'conv', 'to_vec': 'conv', 'into_iter': 'conv',
    }.get(first, 'access')
    t.add(fam)
    for e in evs:
        if e.get('fk', 'none') == 'drop':
            t.add('fault_drop')
        elif e.get('fk', 'none') != 'none':
            t.add('fault_user')
        if e['op'] == 'v_forget':
            t.add('forget')
        if e['op'] in ('v_nth', 'v_nth_back') or (e['op'] == 'v_rest' and e.get('acc')):
            t.add('provided')       # a provided Iterator method (the crate may override it)
        if e['unw'] and e.get('fk', 'none') == 'none':
            t.add('panic_doc')
    return t


FOLLOW_FAULT = [{"op": "observe"}, {"op": "push_back", "val": 2}, {"op": "pop_front"}, {"op": "push_front", "val": 1},
                {"op": "observe"}]
FOLLOW_FORGET = [{"op": "observe"}, {"op": "push_back", "val": 2}, {"op": "push_back", "val": 0}, {"op": "pop_front"},
                 {"op": "observe"}]


# provided Iterator methods that take the view by value: L1 knows fold / rfold; the other methods with the same
# meaning for the contract are variants of those behaviours
BYVAL_MODES = {'fold': ['fold', 'for_each', 'collect', 'count', 'last'], 'rfold': ['rfold', 'rev_collect']}


def byval_variants(raw, tier='thorough'):
    """which variants of the behaviour to run ([0] unless it ends in a by-value consumption): all methods in the
    thorough tier; in the quick tier the one L1 transcribes plus one other, rotated over the behaviours"""
    for e in raw['evs']:
        if e['op'] == 'v_rest' and e.get('acc'):
            k = len(BYVAL_MODES[e['acc']])
            if tier != 'quick':
                return list(range(k))
            rot = int(core.sha(json.dumps([[x['op'], x['bs'], x['be']] for x in raw['evs']]), raw['lay']['size'], raw['lay']['n']), 16)
            return [0, 1 + rot % (k - 1)] if e['acc'] == 'fold' else [rot % k]
    return [0]


def build(raw, sid, route='back', poison=None, observe=True, mode=0):
    """harness scenario for one TLC behaviour"""
    lay = raw['lay']
    n = lay['n']
    tags = tags_of(raw)
    steps = []
    if 'ctor' not in tags:
        steps += layout_steps(n, lay['start'], lay['size'], route)
        if raw['evs'][0]['op'] == 'clone_from':
            src = lay.get('src', {'start': 0, 'size': 0})
            # payload pattern of the source continues that of the destination (L1: PayloadOf(id) = id % 3)
            steps += layout_steps(n, src['start'], src['size'], route, h=1,
                                  vals=[(lay['size'] + k + 1) % 3 for k in range(src['size'])])
        if poison == 'live':
            steps.append({"op": "mk", "val": 1})
        if poison:
            steps.append({"op": "poison", "acc": poison})
    skip_drop = False
    for e in raw['evs']:
        if skip_drop and e['op'] == 'v_drop':
            skip_drop = False       # the by-value call drops the view itself (the harness records both events)
            continue
        steps.append(ev_step(e))
        if e['op'] == 'v_rest' and e.get('acc'):
            steps[-1]['acc'] = BYVAL_MODES[e['acc']][mode % len(BYVAL_MODES[e['acc']])]
            skip_drop = True
        if e['op'] in ('extend', 'from_iter'):
            # what the user's iterator claims through size_hint(): nothing, exact, a lower bound, too generous upper bounds
            # (chosen from the behaviour itself, so that all layout / route / garbage variants of it use the same one)
            steps[-1]['hint'] = [0, 1, 2, 3, n + 3, 2 * n + 2][int(core.sha(n, lay['size'], json.dumps(e['vals']), e['op']), 16) % 6]
    last = raw['evs'][-1]['op']
    alive = last not in ('drop_buf',) and not ('ctor' in tags and raw['evs'][-1]['unw']) and raw['evs'][0]['op'] != 'into_iter'
    if raw['evs'][0]['op'] in ('clone', 'clone_from') and not raw['evs'][0]['unw']:
        # independence of ownership: drop one side first, then look at the other
        if raw['evs'][0]['op'] == 'clone':
            steps += [{"op": "observe", "h": 2}, {"op": "drop_buf", "h": 0}, {"op": "observe", "h": 2}, {"op": "pop_front", "h": 2}]
        else:
            steps += [{"op": "observe", "h": 0}, {"op": "drop_buf", "h": 1}, {"op": "observe", "h": 0}, {"op": "pop_back", "h": 0}]
        alive = False
    if alive:
        if 'fault_drop' in tags or 'fault_user' in tags:
            steps += FOLLOW_FAULT
        elif 'forget' in tags:
            steps += FOLLOW_FORGET
        elif observe and ('iter' not in tags) and ('drain' not in tags or last in ('v_drop',)):
            steps.append({"op": "observe"})
    # behaviours that differ only in the physical front position (and in route / garbage) form one group: the same
    # calls on the same logical contents, which must be indistinguishable (C04)
    grp = core.sha(n, lay['size'], mode, lay.get('src', {}).get('size', 0) if raw['evs'][0]['op'] == 'clone_from' else 0, json.dumps([[e['op'], e['i'], e['j'], e['vals'], e['bs'], e['be'], e.get('fk'), e.get('fn')] for e in raw['evs']]))
    return {"id": sid, "n": n, "ty": "t", "tags": sorted(tags), "steps": steps, "first_op": raw['evs'][0]['op'], "grp": grp,
            "pred": {"start": lay['start'], "size": lay['size']}}


HIST_FAMILIES = [f for f in ALL_FAMILIES if f not in ('faults', 'ctor')]


def hist_raw(n, num, seed, maxcalls=8):
    """TLC in simulation mode on Ring.tla, Mode = "history": behaviours of `maxcalls` calls from new() (every view life counts
    as one call); the refinement L1 => L0 is checked along each, and every enabled last step of every generated behaviour
    is printed (ACTION_CONSTRAINT EmitScenario), i.e. each printed scenario is a complete multi-call behaviour of L1."""
    key = core.sha(core.spec_hash(['Ring.tla', 'Contract.tla', 'Scen_Ring.cfg.tmpl']), 'hist', n, num, seed, maxcalls, ','.join(HIST_FAMILIES))
    d = core.ensure(os.path.join(OUT, 'scen'))
    raw = os.path.join(d, 'hist_N%d_%s.ndjson' % (n, key))
    meta = raw + '.meta.json'
    if os.path.exists(raw) and os.path.exists(meta):
        return raw, json.load(open(meta))
    cfg = os.path.join(SPEC, '_gen_hist_%d_%s_%d.cfg' % (n, key, os.getpid()))
    ring_cfg(cfg, n, False, 'history', maxcalls, min(2 * n + 1, 3), HIST_FAMILIES)
    md = os.path.join(OUT, 'work', 'md_hist_%d_%s_%d' % (n, key, os.getpid()))
    t0 = time.time()
    try:
        rc, out = core.java_tlc(['-workers', '1', '-simulate', 'num=%d' % num, '-depth', '400', '-seed', str(seed), '-aril', '0',
                                 '-metadir', md, '-noGenerateSpecTE', '-config', os.path.basename(cfg), 'Ring.tla'], heap='4g', timeout=3600)
    finally:
        os.remove(cfg)
        shutil.rmtree(md, ignore_errors=True)
    if 'is violated' in out or 'Error:' in out or 'traces generated' not in out:
        raise ToolError('TLC simulation of Ring.tla (history mode) N=%d failed or found a refinement violation:\n%s' % (n, out[-3000:]))
    lines = []
    for line in out.splitlines():
        m = SCN_RE.match(line)
        if m:
            lines.append(m.group(1).encode().decode('unicode_escape'))
    m = re.search(r'(\d+) states checked, (\d+) traces generated', out)
    stats = {'n': n, 'mode': 'history', 'states': int(m.group(1)) if m else 0, 'transitions': int(m.group(1)) if m else 0,
             'behaviours_simulated': int(m.group(2)) if m else 0, 'scenarios': len(lines), 'calls_per_behaviour': maxcalls,
             'families': HIST_FAMILIES, 'seed': seed, 'wall_s': round(time.time() - t0, 1), 'ops': {}}
    with open(raw + '.tmp', 'w') as f:
        f.write('\n'.join(lines) + ('\n' if lines else ''))
    os.replace(raw + '.tmp', raw)
    json.dump(stats, open(meta, 'w'))
    return raw, stats


def wide_drains(n):
    """larger capacities (beyond the TLC-enumerated view families): every layout x every range a..b of a drain that is
    dropped at once, after one next() or after one next_back(); the contract alone is the oracle (contents afterwards,
    ownership, relocation bound, no allocation). Layouts where the elements before the range, the range and the elements
    after it all wrap differently only exist from N = 6 on."""
    out = []
    k = 0
    for start in range(n):
        for size in range(n + 1):
            for a in range(size + 1):
                for b in range(a, size + 1):
                    for pre in ([], [{"op": "v_next", "v": 0}], [{"op": "v_next_back", "v": 0}]):
                        if pre and b == a:
                            continue
                        k += 1
                        steps = layout_steps(n, start, size) + [{"op": "drain", "h": 0, "bs": ["i", a], "be": ["e", b], "v": 0}] + pre + \
                                [{"op": "v_drop", "v": 0}, {"op": "observe"}]
                        out.append({"id": "wd%d-%d" % (n, k), "n": n, "ty": "t", "tags": ["drain", "wide"], "steps": steps, "first_op": "drain",
                                    "grp": core.sha('wd', n, size, a, b, len(pre) and pre[0]['op']), "pred": {"start": start, "size": size}})
    return out


def load_raw(path):
    out = []
    with open(path) as f:
        for line in f:
            line = line.strip()
            if line:
                out.append(json.loads(line))
    return out


# ------------------------------------------------------------------------------------------------
# byte-stream I/O scenarios (C14, C16)

def io_layout_steps(n, start, size, fam, vals=None):
    """reach (start, size) with stream operations only, never emptying the buffer by a read on the way (an
    implementation that re-centres an emptied buffer still reaches the layout): read() advances the front,
    consume() (a drain) removes without moving it"""
    st = [{"op": "new"}]
    content = vals if vals is not None else [k + 1 for k in range(size)]
    if n > 0 and 0 < start < n:
        # fillers, then as much of the contents as fits, then the fillers are read away (the buffer keeps the contents,
        # so it is never empty on the way unless the target layout is itself empty), then the rest wraps around
        c1 = min(size, n - start)
        st.append({"op": "write", "vals": [7] * start, "fam": fam})
        if c1 > 0:
            st.append({"op": "write", "vals": content[:c1], "fam": fam})
        st.append({"op": "read", "i": start, "fam": fam})
        if size > c1:
            st.append({"op": "write", "vals": content[c1:], "fam": fam})
        return st
    if n > 0 and start > 0:
        st.append({"op": "write", "vals": [7] * start, "fam": fam})
        st.append({"op": "read", "i": start, "fam": fam})
    if size > 0:
        st.append({"op": "write", "vals": content, "fam": fam})
    return st


def utf8_fill(size, variant):
    """contents for read_to_string: two-byte characters, so that the wrap point of a layout falls inside one
    ('u0': from the first byte, 'u1': after one ASCII byte), or bytes that are not UTF-8 at all ('bad')"""
    if variant == 'bad':
        return [0xFF] * size
    out = [0x61] if (variant == 'u1') else []
    while len(out) + 2 <= size:
        out += [0xC3, 0xA9]
    return out + [0x62] * (size - len(out))


def io_build(raw, sid, fam='std', poison=None, fill=None):
    lay = raw['lay']
    steps = io_layout_steps(lay['n'], lay['start'], lay['size'], fam, utf8_fill(lay['size'], fill) if fill else None)
    if poison:
        steps.append({"op": "poison", "acc": poison})
    for e in raw['evs']:
        steps.append({"op": e['op'], "i": e['i'], "vals": e['vals'], "fam": fam})
    # one more round trip so that the state after the call is exercised, not only observed
    steps.append({"op": "fill_buf", "fam": fam})
    steps.append({"op": "read", "i": 1, "fam": fam})
    return {"id": sid, "n": lay['n'], "ty": "b", "tags": ["io", fam, raw['evs'][0]['op']], "steps": steps,
            "pred": {"start": lay['start'], "size": lay['size']}}


def io_random(rnd, n, sid, fams, length):
    steps = [{"op": "new"}]
    for _ in range(length):
        fam = rnd.choice(fams)
        r = rnd.random()
        if r < 0.35:
            k = rnd.choice([0, 1, 2, n, n + 1, 2 * n + 1, rnd.randint(0, 2 * n + 1)])
            text = rnd.random() < 0.3       # mostly two-byte characters, so that read_to_string has something valid to split
            data = (utf8_fill(k, rnd.choice(['u0', 'u1'])) if text else [rnd.randint(0, 255) for _ in range(k)])
            steps.append({"op": rnd.choice(["write"] * 8 + ["extend_ref", "write_all", "write_vectored", "write_fmt"]), "vals": data,
                          "i": rnd.randint(0, k), "fam": fam})
        elif r < 0.5:
            steps.append({"op": rnd.choice(["read", "read", "read_exact"]), "i": rnd.choice([0, 1, 2, n, n + 2, rnd.randint(0, n + 2)]), "fam": fam})
        elif r < 0.6:
            op = rnd.choice(["hash", "hash", "read_to_end", "read_to_string", "read_to_string", "read_until", "read_vectored"])
            steps.append({"op": op, "i": rnd.choice([0xA9, 0x61, rnd.randint(0, 255)]), "vals": [rnd.randint(0, n + 1), rnd.randint(0, n + 1)], "fam": fam})
        elif r < 0.75:
            steps.append({"op": "fill_buf", "fam": fam})
        elif r < 0.92:
            steps.append({"op": "consume", "i": rnd.choice([0, 1, 2, n, n + 2, 1073741824, rnd.randint(0, n + 2)]), "fam": fam})
        elif r < 0.96:
            steps.append({"op": "flush", "fam": fam})
        else:
            steps.append({"op": "poison", "acc": rnd.choice(["00", "ff", "5a"])})
    return {"id": sid, "n": n, "ty": "b", "tags": ["io", "random"], "steps": steps}


# ------------------------------------------------------------------------------------------------
# observers over two buffers (C13): pairs enumerated by TLC from spec/Observers.tla

def obs_raw(n, m, force=False):
    key = core.sha(core.spec_hash(['Observers.tla', 'Observers.cfg.tmpl']), n, m)
    d = core.ensure(os.path.join(OUT, 'scen'))
    raw = os.path.join(d, 'obs_%d_%d_%s.ndjson' % (n, m, key))
    meta = raw + '.meta.json'
    if os.path.exists(raw) and os.path.exists(meta) and not force:
        return raw, json.load(open(meta))
    cfg = os.path.join(SPEC, '_gen_obs_%d_%d_%d.cfg' % (n, m, os.getpid()))
    t = open(os.path.join(SPEC, 'Observers.cfg.tmpl')).read().replace('@N@', str(n)).replace('@M@', str(m))
    open(cfg, 'w').write(t)
    md = os.path.join(OUT, 'work', 'md_obs_%d_%d_%d' % (n, m, os.getpid()))
    t0 = time.time()
    try:
        rc, out = core.java_tlc(['-workers', '1', '-metadir', md, '-cleanup', '-noGenerateSpecTE', '-config',
                                 os.path.basename(cfg), 'Observers.tla'], heap='4g', timeout=3600)
    finally:
        os.remove(cfg)
    st = core.tlc_stats(out)
    if st is None or 'No error has been found' not in out:
        raise ToolError('TLC failed on Observers.tla N=%d M=%d:\n%s' % (n, m, out[-3000:]))
    lines = []
    for line in out.splitlines():
        mm = SCN_RE.match(line)
        if mm:
            lines.append(mm.group(1).encode().decode('unicode_escape'))
    stats = {'n': n, 'm': m, 'states': st['distinct'], 'transitions': st['generated'], 'scenarios': len(lines),
             'wall_s': round(time.time() - t0, 1)}
    with open(raw + '.tmp', 'w') as f:
        f.write('\n'.join(lines) + ('\n' if lines else ''))
    os.replace(raw + '.tmp', raw)
    json.dump(stats, open(meta, 'w'))
    return raw, stats


def layout_vals_steps(cap, start, vals, h, tag_cap):
    st = [{"op": "new", "h": h}]
    if cap > 0:
        for _ in range(start):
            st.append({"op": "push_back", "h": h, "val": 0})
            st.append({"op": "pop_front", "h": h})
        if len(st) > 1:
            st.append({"op": "caller_drop"})
    for v in vals:
        st.append({"op": "push_back", "h": h, "val": v})
    if tag_cap is not None:
        for s in st:
            s["cap"] = tag_cap
    return st


DEBUG_FORMS = ["plain", "alt", "w5", "lw4", "z3", "plus", "hex", "HEX", "althex", "prec", "fillw"]
SLICE_FORMS = ["slice", "ref_slice", "mut_slice", "array", "ref_array", "mut_array"]


def obs_build(pair, sid, k):
    a, b = pair['a'], pair['b']
    n, m = a['cap'], b['cap']
    steps = layout_vals_steps(n, a['start'], a['vals'], 0, None)
    steps += layout_vals_steps(m, b['start'], b['vals'], 1, m if m != n else None)
    x = {"h": 0, "h2": 1}
    if m != n:
        x["cap2"] = m
    for op in ("eq", "ne", "partial_cmp", "lt", "le", "gt", "ge"):
        steps.append(dict(x, op=op))
    if m == n:
        steps.append({"op": "cmp", "h": 0, "h2": 1})
        steps.append({"op": "hash", "h": 0, "h2": 1})
    else:
        steps.append({"op": "hash", "h": 0})
    for j in range(2):
        steps.append({"op": "eq_slice", "h": 0, "acc": SLICE_FORMS[(k + 3 * j) % 6], "vals": b['vals']})
    steps.append({"op": "eq_slice", "h": 0, "acc": SLICE_FORMS[(k + 1) % 6], "vals": a['vals']})
    steps.append({"op": "debug", "h": 0, "acc": DEBUG_FORMS[k % len(DEBUG_FORMS)]})
    steps.append({"op": "debug", "h": 0, "acc": DEBUG_FORMS[(k + 5) % len(DEBUG_FORMS)]})
    return {"id": sid, "n": n, "ty": "t", "tags": ["observers", "N%dM%d" % (n, m)], "steps": steps}


# ------------------------------------------------------------------------------------------------
# zero-sized elements at extreme capacities (C19): the behaviours TLC enumerates on the small-word
# model (MaxU = 7, N in {7,6,5,4,3}: position arithmetic really wraps the word there) are mapped,
# inputs only, onto the real 64-bit capacities usize::MAX, usize::MAX-1, 2^63+1, 2^63, 2^63-1, 2^32+1, ...

Z_FAMILIES = ['single', 'positional', 'bulk', 'access', 'extend', 'drain', 'iter']
Z_MAP = {7: ['max'], 6: ['max-1'], 5: ['p63+1', 'p32+1'], 4: ['p63', 'p32'], 3: ['p63-1', 'p32-1']}
Z_BASE = {'max': 1 << 30, 'max-1': (1 << 30) - 1, 'p63+1': (1 << 29) + 1, 'p63': 1 << 29, 'p63-1': (1 << 29) - 1,
          'p32+1': (1 << 28) + 1, 'p32': 1 << 28, 'p32-1': (1 << 28) - 1}


def z_raw(nm):
    return ring_raw(nm, families=Z_FAMILIES, maxarg=2, maxu=7, maxscript=2)


def z_small_raw(n):
    """zero-sized elements in buffers of ordinary small capacity (normal word width)"""
    return ring_raw(n, families=Z_FAMILIES, maxarg=2, maxscript=2)


DEFAULT_ITERS = {"id": "default-iterators", "n": 3, "ty": "t", "tags": ["iter"], "first_op": "iter_default", "steps": [
    {"op": "iter_default", "v": 0}, {"op": "v_len", "v": 0}, {"op": "v_next", "v": 0}, {"op": "v_next_back", "v": 0},
    {"op": "v_size_hint", "v": 0}, {"op": "v_clone", "v": 0, "v2": 1}, {"op": "v_next", "v": 1}, {"op": "v_drop", "v": 1},
    {"op": "v_drop", "v": 0}, {"op": "iter_mut_default", "v": 0}, {"op": "v_len", "v": 0}, {"op": "v_next_back", "v": 0},
    {"op": "v_next", "v": 0}, {"op": "v_size_hint", "v": 0}, {"op": "v_drop", "v": 0}]}


def z_arg(i, nm, size, ncode):
    """an index argument of the small model as a code of the real word domain"""
    if ncode in ('0', '1', '3', '5'):
        return i          # ordinary small capacities: the model's capacity is the real one
    if i < size + 2 and i < nm - 1:
        return i
    if ncode == 'max':
        return min(Z_BASE['max'], Z_BASE['max'] + (i - nm))
    return Z_BASE[ncode] + (i - nm)


def z_build(raw, sid, ncode):
    lay = raw['lay']
    nm, start, size = lay['n'], lay['start'], lay['size']
    size = min(size, 6)
    steps = [{"op": "new"}]
    if start <= nm // 2:
        for _ in range(start):
            steps += [{"op": "push_back"}, {"op": "pop_front"}]
    else:
        for _ in range(nm - start):
            steps += [{"op": "push_front"}, {"op": "pop_back"}]
    steps.append({"op": "caller_drop"})
    steps += [{"op": "push_back"}] * size
    for e in raw['evs']:
        op = e['op']
        s = {"op": op}
        if op in ('remove', 'swap_remove_back', 'swap_remove_front', 'truncate_back', 'truncate_front', 'get', 'get_mut',
                  'nth_front', 'nth_front_mut', 'nth_back', 'nth_back_mut', 'index', 'index_mut'):
            s['i'] = z_arg(e['i'], nm, size, ncode)
        elif op == 'swap':
            s['i'] = z_arg(e['i'], nm, size, ncode)
            s['j'] = z_arg(e['j'], nm, size, ncode)
        elif op in ('extend', 'extend_from_slice'):
            s['i'] = len(e['vals'])
        elif op in ('drain', 'range', 'range_mut'):
            s['bs'] = [e['bs']['t'], z_arg(e['bs']['x'], nm, size, ncode)] if e['bs']['t'] != 'u' else ['u']
            s['be'] = [e['be']['t'], z_arg(e['be']['x'], nm, size, ncode)] if e['be']['t'] != 'u' else ['u']
        steps.append(s)
    steps += [{"op": "as_slices"}, {"op": "push_front"}, {"op": "pop_back"}, {"op": "as_slices"}]
    return {"id": sid, "ty": "z", "ncode": ncode, "n": nm, "tags": ["zst", ncode, raw['evs'][0]['op']], "steps": steps,
            "first_op": raw['evs'][0]['op'], "pred": {"start": start, "size": size}}


def z_random(rnd, ncode, sid, length):
    """a random history of O(1) operations on zero-sized elements at one of the extreme capacities (the contract's
    length / flag / result / destructor-count clauses are the oracle): positions drift away from 0 in both directions"""
    base = Z_BASE.get(ncode)
    top = 1 << 30
    def idx():
        c = [0, 1, 2, 3, rnd.randint(0, 6), top]
        if base is not None:
            c += [base - 1, base, min(base + 1, top)]
        return rnd.choice(c)
    def bnd():
        return rnd.choice([["u"], ["i", rnd.randint(0, 4)], ["e", rnd.randint(0, 5)], ["i", 0], ["e", idx()]])
    steps = [{"op": "new"}]
    viewing = False
    for _ in range(length):
        if viewing:
            op = rnd.choice(["v_next", "v_next", "v_next_back", "v_len", "v_drop", "v_drop"])
            steps.append({"op": op})
            viewing = op != "v_drop"
            continue
        r = rnd.random()
        if r < 0.38:
            steps.append({"op": rnd.choice(["push_back", "push_back", "push_front", "push_front", "try_push_back", "try_push_front"])})
        elif r < 0.58:
            steps.append({"op": rnd.choice(["pop_front", "pop_front", "pop_back"])})
        elif r < 0.66:
            steps.append({"op": rnd.choice(["remove", "swap_remove_back", "swap_remove_front"]), "i": idx()})
        elif r < 0.70:
            steps.append({"op": "swap", "i": rnd.choice([0, 1, 2, idx()]), "j": rnd.choice([0, 1, 2, idx()])})
        elif r < 0.76:
            steps.append({"op": rnd.choice(["truncate_back", "truncate_front"]), "i": idx()})
        elif r < 0.78:
            steps.append({"op": "clear"})
        elif r < 0.83:
            steps.append({"op": rnd.choice(["extend", "extend_from_slice"]), "i": rnd.randint(0, 3)})
        elif r < 0.90:
            steps.append({"op": rnd.choice(["get", "nth_front", "nth_back", "get_mut", "nth_back_mut", "index", "front", "back", "back_mut",
                                            "as_slices", "as_mut_slices", "make_contiguous"]), "i": idx()})
        elif r < 0.97:
            op = rnd.choice(["drain", "drain", "range", "range_mut", "iter", "iter_mut"])
            steps.append({"op": op, "bs": bnd(), "be": bnd()})
            viewing = True        # (a documented panic on bad bounds leaves no view: the harness skips the view steps then)
        else:
            steps.append({"op": "caller_drop"})
    if viewing:
        steps.append({"op": "v_drop"})
    steps += [{"op": "as_slices"}, {"op": "push_front"}, {"op": "pop_back"}, {"op": "as_slices"}]
    return {"id": sid, "ty": "z", "ncode": ncode, "n": 0, "tags": ["zst", ncode, "random"], "steps": steps, "first_op": "random"}


# ------------------------------------------------------------------------------------------------
# seeded random long histories at larger capacities (direction B only: the contract is the oracle)

def random_history(rnd, n, sid, length, faults):
    """a random client program over up to three buffers of capacity n and two views; steps that the borrow
    rules forbid are skipped by the harness"""
    steps = [{"op": "new", "h": 0}]
    live = {0}
    views = {}
    idx = lambda: rnd.choice([0, 1, 2, rnd.randint(0, n + 1), n - 1 if n else 0, n, n + 1, 1073741824])
    bound = lambda: rnd.choice([["u"], ["i", rnd.randint(0, n + 1)], ["e", rnd.randint(0, n + 1)], ["i", 0], ["e", 1073741824]])
    for _ in range(length):
        h = rnd.choice(sorted(live)) if live else 0
        r = rnd.random()
        st = None
        if views and r < 0.25:
            v = rnd.choice(sorted(views))
            op = rnd.choice(["v_next", "v_next", "v_next_back", "v_len", "v_size_hint", "v_drop", "v_rest", "v_clone", "v_nth", "v_nth_back", "v_debug"] +
                            (["v_forget"] if faults and views[v] == "drain" else []))
            st = {"op": op, "v": v}
            if op in ("v_nth", "v_nth_back"):
                st["i"] = rnd.choice([0, 1, 2, n, 1073741824])
            if op == "v_clone":
                st["v2"] = 1 - v if (1 - v) not in views else v
                if st["v2"] == v:
                    st = {"op": "v_len", "v": v}
                else:
                    views[st["v2"]] = views[v]
            if op in ("v_drop", "v_forget"):
                views.pop(v, None)
        elif r < 0.33 and len(views) < 2:
            v = 0 if 0 not in views else 1
            op = rnd.choice(["iter", "iter_mut", "range", "range_mut", "drain", "drain", "into_iter"])
            st = {"op": op, "h": h, "v": v}
            if op in ("range", "range_mut", "drain"):
                st["bs"] = bound()
                st["be"] = bound()
            if op == "into_iter":
                live.discard(h)
            views[v] = op
        elif r < 0.36 and len(live) < 3:
            h2 = min({0, 1, 2} - live)
            kind = rnd.choice(["new", "clone", "from_iter", "from_array", "default", "boxed"])
            if kind == "clone" and live:
                st = {"op": "clone", "h": h, "h2": h2}
            elif kind in ("from_iter", "from_array"):
                st = {"op": kind, "h": h2, "vals": [rnd.randint(0, 2) for _ in range(rnd.randint(0, min(2 * n + 1, 12)))]}
            else:
                st = {"op": kind if kind != "clone" else "new", "h": h2}
            live.add(h2)
        elif r < 0.39 and len(live) >= 2:
            h2 = rnd.choice(sorted(live - {h}))
            st = {"op": rnd.choice(["clone_from", "eq", "ne", "partial_cmp", "cmp", "lt", "ge", "hash"]), "h": h, "h2": h2}
        elif r < 0.41 and len(live) >= 2:
            st = {"op": "drop_buf", "h": h}
            live.discard(h)
        elif not live:
            st = {"op": "new", "h": 0}
            live.add(0)
        else:
            op = rnd.choice(["push_back", "push_back", "push_front", "try_push_back", "try_push_front", "pop_back", "pop_front",
                             "remove", "swap", "swap_remove_back", "swap_remove_front", "truncate_back", "truncate_front", "clear",
                             "fill", "fill_with", "fill_spare", "fill_spare_with", "extend", "extend_from_slice", "make_contiguous",
                             "get", "nth_back", "index", "front_mut", "back", "as_slices", "as_mut_slices", "observe", "to_vec",
                             "write_via", "eq_slice", "debug", "poison", "caller_drop"])
            st = {"op": op, "h": h}
            if op in ("push_back", "push_front", "try_push_back", "try_push_front", "fill", "fill_spare"):
                st["val"] = rnd.randint(0, 2)
            elif op in ("remove", "swap_remove_back", "swap_remove_front", "truncate_back", "truncate_front", "get", "nth_back", "index"):
                st["i"] = idx()
            elif op == "swap":
                st["i"] = idx()
                st["j"] = idx()
            elif op in ("fill_with", "fill_spare_with", "extend", "extend_from_slice", "eq_slice"):
                st["vals"] = [rnd.randint(0, 2) for _ in range(rnd.randint(0, min(2 * n + 1, 12)))] or ([1] if op.startswith("fill") else [])
                if op == "extend":
                    st["hint"] = rnd.choice([0, 1, 2, 3, n + 3, 2 * n + 2])
                if op == "eq_slice":
                    st["acc"] = rnd.choice(SLICE_FORMS)
            elif op == "write_via":
                st["acc"] = rnd.choice(["get_mut", "nth_front_mut", "nth_back_mut", "front_mut", "back_mut", "index_mut", "iter_mut",
                                        "iter_mut_rev", "range_mut", "as_mut_slices", "make_contiguous"])
                st["i"] = rnd.randint(0, n + 1)
                st["val"] = rnd.randint(3, 9)
                st["bs"] = bound()
                st["be"] = bound()
            elif op == "debug":
                st["acc"] = rnd.choice(DEBUG_FORMS)
            elif op == "poison":
                st["acc"] = rnd.choice(["00", "ff", "5a", "stale", "live"])
        # (no fault inside nth on a view: how far an owning view got before the panic is not observable)
        if faults and st and rnd.random() < 0.12 and st["op"] not in ("caller_drop", "poison", "observe", "v_forget", "v_nth", "v_nth_back"):
            st["fault"] = {"k": rnd.choice(["drop", "drop", "clone", "gen", "iter", "cmp"]), "n": rnd.randint(1, 4)}
        if st:
            steps.append(st)
    return {"id": sid, "n": n, "ty": "t", "tags": ["random", "faults" if faults else "nofaults"], "steps": steps, "first_op": "random"}


# ------------------------------------------------------------------------------------------------
def reach(n):
    """number of physical layouts (start, size) reachable from new() by push/pop alone (TLC, history mode, VIEW = layout).
    The one-shot configurations start from EVERY layout; this shows that set is not an over-approximation."""
    key = core.sha(core.spec_hash(['Ring.tla', 'Contract.tla', 'Reach_Ring.cfg.tmpl']), n)
    path = os.path.join(core.ensure(os.path.join(OUT, 'scen')), 'reach_%d_%s.json' % (n, key))
    if os.path.exists(path):
        return json.load(open(path))
    cfg = os.path.join(SPEC, '_gen_reach_%d_%d.cfg' % (n, os.getpid()))
    t = open(os.path.join(SPEC, 'Reach_Ring.cfg.tmpl')).read().replace('@N@', str(n)).replace('@MAXCALLS@', str(3 * n + 2))
    open(cfg, 'w').write(t)
    md = os.path.join(OUT, 'work', 'md_reach_%d_%d' % (n, os.getpid()))
    try:
        rc, out = core.java_tlc(['-workers', '1', '-metadir', md, '-cleanup', '-noGenerateSpecTE', '-config', os.path.basename(cfg), 'Ring.tla'],
                                heap='2g', timeout=1800)
    finally:
        os.remove(cfg)
    st = core.tlc_stats(out)
    if st is None or 'No error has been found' not in out:
        raise ToolError('TLC failed on the reachability configuration N=%d:\n%s' % (n, out[-2000:]))
    res = {'n': n, 'reachable_layouts': st['distinct'], 'all_layouts': n * (n + 1) if n > 0 else 1}
    json.dump(res, open(path, 'w'))
    return res


# ------------------------------------------------------------------------------------------------
def clone_scripts(n):
    """C08: a cloned Iter (and a cloned IntoIter) continues independently from the same point: for every layout and a
    few ranges, advance the original k steps, clone, then interleave steps on both and drop them in either order"""
    out = []
    lays = [(0, 0)] if n == 0 else [(st, sz) for st in range(n) for sz in range(n + 1)]
    k_id = 0
    for (st, sz) in lays:
        ranges = {(0, sz), (min(1, sz), sz), (0, max(sz - 1, 0))}
        for (a, b) in sorted(ranges):
            if a > b:
                continue
            for pre in range(0, min(b - a, 2) + 1):
                for kind in ('range', 'into_iter'):
                    if kind == 'into_iter' and (a, b) != (0, sz):
                        continue
                    steps = layout_steps(n, st, sz)
                    if kind == 'range':
                        steps.append({"op": "range", "h": 0, "v": 0, "bs": ["i", a], "be": ["e", b]})
                    else:
                        steps.append({"op": "into_iter", "h": 0, "v": 0})
                    steps += [{"op": "v_next" if j % 2 == 0 else "v_next_back", "v": 0} for j in range(pre)]
                    steps.append({"op": "v_clone", "v": 0, "v2": 1})
                    steps += [{"op": "v_len", "v": 1}, {"op": "v_nth", "v": 0, "i": k_id % 3}, {"op": "v_len", "v": 1}, {"op": "v_nth_back", "v": 1, "i": (k_id // 3) % 2},
                              {"op": "v_next", "v": 1}, {"op": "v_len", "v": 0}, {"op": "v_debug", "v": 1}]
                    steps += [{"op": "v_drop", "v": k_id % 2}, {"op": "v_rest", "v": 1 - k_id % 2, "i": k_id % 2}]
                    out.append({"id": "vc%d-%d" % (n, k_id), "n": n, "ty": "t", "tags": ["iter", "clone_script"], "steps": steps,
                                "first_op": kind, "pred": {"start": st, "size": sz}})
                    k_id += 1
    return out


def obs_fault_build(pair, sid, k):
    """C06: an element comparison panics part-way through ==, partial_cmp, cmp: both buffers stay valid, nothing is lost"""
    a, b = pair['a'], pair['b']
    n, m = a['cap'], b['cap']
    steps = layout_vals_steps(n, a['start'], a['vals'], 0, None)
    steps += layout_vals_steps(m, b['start'], b['vals'], 1, m if m != n else None)
    x = {"h": 0, "h2": 1}
    if m != n:
        x["cap2"] = m
    ops = ["eq", "partial_cmp", "lt"] + (["cmp"] if m == n else [])
    op = ops[k % len(ops)]
    steps.append(dict(x, op=op, fault={"k": "cmp", "n": 1 + (k // len(ops)) % 3}))
    steps += [{"op": "observe", "h": 0}, dict(x, op="eq"), {"op": "push_back", "h": 0, "val": 1}, {"op": "pop_front", "h": 0}]
    return {"id": sid, "n": n, "ty": "t", "tags": ["observers", "fault_user"], "steps": steps, "first_op": op}
