"""Binding demonstration and sensitivity of the specification itself (bin/verif selftest).

1. Trace binding: a trace recorded from the real code is accepted; the same trace with ONE recorded field
   corrupted (a returned id, an id of the observed contents, a slot index, the allocation count, a dropped
   callback event removed, a destructor event duplicated) must be rejected by TLC at that line.
2. Specification sensitivity: spec/Ring.tla with Pinned = TRUE (the mechanism as it was before the six fix:
   commits) must violate the refinement L1 => L0 with the clause of each defect.
Exit 0 iff everything behaves as stated."""
import os, json, copy, shutil
from . import core, scen
from .core import OUT, log


BASE = {"id": "selftest", "n": 3, "ty": "t", "steps": [
    {"op": "new", "h": 0}, {"op": "push_back", "val": 1}, {"op": "push_back", "val": 2}, {"op": "pop_front"},
    {"op": "push_back", "val": 0}, {"op": "push_back", "val": 1}, {"op": "push_back", "val": 2}, {"op": "get", "i": 2}, {"op": "observe"},
    {"op": "remove", "i": 1}, {"op": "truncate_back", "i": 1}, {"op": "drain", "v": 0, "bs": ["i", 0], "be": ["e", 1]},
    {"op": "v_next", "v": 0}, {"op": "v_drop", "v": 0}]}


def validate(lines, tag):
    work = core.ensure(os.path.join(OUT, 'work', 'selftest.%d' % os.getpid()))
    tr = os.path.join(work, tag + '.ndjson')
    with open(tr, 'w') as f:
        f.write('\n'.join(json.dumps(l, separators=(',', ':')) for l in lines) + '\n')
    md = os.path.join(work, 'md_' + tag)
    rc, out = core.java_tlc(['-workers', '1', '-metadir', md, '-cleanup', '-noGenerateSpecTE', '-config', 'Trace.cfg', 'Trace.tla'],
                            env={'TRACE': tr}, trace_mode=True, heap='1g', timeout=300)
    shutil.rmtree(md, ignore_errors=True)
    return core.parse_fail_lines(out), ('"FAILED-CLAUSES", 0' in out)


def run(argv):
    bad = 0
    binp, bout = core.build_harness('default')
    if binp is None:
        log(bout[-2000:])
        return 2
    work = core.ensure(os.path.join(OUT, 'work', 'selftest.%d' % os.getpid()))
    sp = os.path.join(work, 'scen.ndjson')
    open(sp, 'w').write(json.dumps(BASE) + '\n')
    tp = os.path.join(work, 'trace.ndjson')
    import subprocess
    subprocess.run([binp, 'run', sp, tp], check=True, stderr=subprocess.DEVNULL)
    events = [json.loads(l) for l in open(tp)]
    fails, ok = validate(events, 'clean')
    log('clean trace (%d events): %s' % (len(events), 'accepted' if ok else 'REJECTED %s' % fails))
    bad += 0 if ok else 1

    def corrupt(name, fn, expect_line=None):
        nonlocal bad
        ev2 = copy.deepcopy(events)
        line = fn(ev2)
        fails, ok = validate(ev2, name)
        hit = [f for f in fails if f['l'] == line]
        good = (not ok) and bool(hit)
        log('corrupted %-28s -> %s at line %s %s' % (name, 'rejected' if not ok else 'ACCEPTED (binding broken!)', line,
                                                     sorted({l[1] for f in hit for l in f['f']})))
        bad += 0 if good else 1

    def idx(op, nth=0):
        return [i for i, e in enumerate(events) if e['op'] == op][nth]

    def c_ret(ev):
        i = idx('pop_front'); ev[i]['ret']['ids'] = [2]; return i + 1
    def c_post(ev):
        i = idx('push_back', 3); ev[i]['post']['seq'][0] = 99; return i + 1
    def c_slot(ev):
        i = idx('observe'); ev[i]['rows'][0]['slots'][0] = (ev[i]['rows'][0]['slots'][0] + 1) % 3; return i + 1
    def c_alloc(ev):
        i = idx('remove'); ev[i]['allocs'] = 1; return i + 1
    def c_nodrop(ev):
        i = idx('truncate_back'); ev[i]['cbs'] = ev[i]['cbs'][:-1]; return i + 1
    def c_dupdrop(ev):
        i = idx('truncate_back'); ev[i]['cbs'] = ev[i]['cbs'] + ev[i]['cbs'][-1:]; return i + 1
    def c_len(ev):
        i = idx('v_drop'); ev[i]['post']['len'] += 1; return i + 1
    def c_moved(ev):
        i = idx('get'); ev[i]['post']['slots'] = [(s + 1) % 3 for s in ev[i]['post']['slots']]; ev[i]['ret']['slots'] = [(s + 1) % 3 for s in ev[i]['ret']['slots']]; return i + 1
    def c_unw(ev):
        i = idx('remove'); ev[i]['unw'] = True; ev[i]['ret']['k'] = 'panic'; return i + 1

    for name, fn in [('returned element id', c_ret), ('observed contents id', c_post), ('accessor slot index', c_slot),
                     ('allocation count', c_alloc), ('destructor event removed', c_nodrop), ('destructor event duplicated', c_dupdrop),
                     ('length after drain', c_len), ('element addresses (moved)', c_moved), ('unwound flag', c_unw)]:
        corrupt(name, fn)

    # 2. the pinned mechanism must violate the refinement
    want = {0: {'return_value', 'unexpected_panic'}, 3: {'double_drop', 'dead_element_in_buffer', 'leak', 'relocated_too_many'}}
    for n, clauses in want.items():
        cfg = os.path.join(core.SPEC, '_selftest_%d.cfg' % os.getpid())
        scen.ring_cfg(cfg, n, True, 'oneshot', 1, 2 * n + 1, scen.ALL_FAMILIES, emit=False)
        md = os.path.join(work, 'md_pinned_%d' % n)
        try:
            rc, out = core.java_tlc(['-workers', '4', '-metadir', md, '-cleanup', '-noGenerateSpecTE', '-continue', '-config', os.path.basename(cfg), 'Ring.tla'],
                                    heap='4g', timeout=1800)
        finally:
            os.remove(cfg)
        import re
        seen = set(re.findall(r'<<"C\d\d[^"]*", "(\w+)">>', out))
        missing = clauses - seen
        log('Ring.tla Pinned=TRUE N=%d: refinement violated with clauses %s%s' % (n, sorted(seen), '' if not missing else ' MISSING %s' % sorted(missing)))
        bad += 1 if missing else 0
    shutil.rmtree(work, ignore_errors=True)
    log('selftest: %s' % ('ok' if bad == 0 else '%d problems' % bad))
    return 0 if bad == 0 else 1
